/-! Prototype (C20): vertices of a simplex given by its permutahedral representation `(v, ω)`; they are pairwise
    distinct; `face_from_indices` selects exactly the requested vertices.  Core Lean only.
    A vertex is modelled as its coordinate function `Nat → Int` restricted to `j < d` (the C++ `std::vector<int>` of size
    `d`); the model functions below only ever read and write coordinates `< d`. -/
namespace PermProto

abbrev Vtx := Nat → Int

/-- `value_[i]++` for `i ≠ d`, and `for j < d: value_[j]--` for `i = d` (`Vertex_iterator::update_value`) -/
def bump (d : Nat) (v : Vtx) (i : Nat) : Vtx :=
  fun j => if i = d then (if j < d then v j - 1 else v j) else (if j = i then v j + 1 else v j)

def shift (d : Nat) (v : Vtx) (p : List Nat) : Vtx := p.foldl (bump d) v

/-- closed form: coordinate `j < d` moves by (#occurrences of j) − (#occurrences of d) -/
theorem shift_apply (d : Nat) (p : List Nat) : ∀ (v : Vtx) (j : Nat), j < d →
    shift d v p j = v j + (p.count j : Int) - (p.count d : Int) := by
  induction p with
  | nil => intro v j _; simp [shift]
  | cons i p ih =>
    intro v j hj
    have hjd : j ≠ d := by omega
    show shift d (bump d v i) p j = _
    rw [ih (bump d v i) j hj]
    simp only [bump, List.count_cons]
    by_cases hid : i = d
    · subst hid
      have : ¬ (i = j) := fun h => hjd h.symm
      simp [hj, this]; omega
    · by_cases hij : j = i
      · subst hij; simp [hid]; omega
      · have : ¬ (i = j) := fun h => hij h.symm
        simp [hid, hij, this]

theorem shift_append (d : Nat) (v : Vtx) (p q : List Nat) : shift d v (p ++ q) = shift d (shift d v p) q := by
  simp [shift, List.foldl_append]

/-- the vertices `v_0, …, v_k` of `(v, [ω_0, …, ω_k])` in the order of `Vertex_iterator` (the last part is not applied) -/
def verts (d : Nat) : Vtx → List (List Nat) → List Vtx
  | _, [] => []
  | v, p :: ps => v :: verts d (shift d v p) ps

theorem verts_length (d : Nat) (ps : List (List Nat)) : ∀ v, (verts d v ps).length = ps.length := by
  induction ps with
  | nil => intro v; rfl
  | cons p ps ih => intro v; simp [verts, ih]

/-- the m-th vertex is `v` shifted by the first m parts -/
theorem verts_getD (d : Nat) (ps : List (List Nat)) : ∀ (v : Vtx) (m : Nat), m < ps.length →
    (verts d v ps).getD m v = shift d v (ps.take m).flatten := by
  induction ps with
  | nil => intro v m h; simp at h
  | cons p ps ih =>
    intro v m h
    cases m with
    | zero => simp [verts, shift]
    | succ m =>
      simp only [verts, List.getD_cons_succ, List.take_succ_cons, List.flatten_cons, shift_append]
      have := ih (shift d v p) m (by simpa using h)
      rw [List.getD_eq_getElem?_getD] at this ⊢
      have hlen : m < (verts d (shift d v p) ps).length := by rw [verts_length]; simpa using h
      rw [List.getElem?_eq_getElem hlen] at this ⊢
      simpa using this

/-- equality on the coordinates that exist -/
def EqOn (d : Nat) (a b : Vtx) : Prop := ∀ j, j < d → a j = b j

/-- a valid ordered partition of `{0,…,d}`: flattening it is a permutation of `0..d` and no part is empty -/
def ValidParts (d : Nat) (ps : List (List Nat)) : Prop :=
  ps.flatten.Perm (List.range (d + 1)) ∧ ∀ p ∈ ps, p ≠ []

/-- a duplicate-free non-empty set of indices `≤ d` that misses at least one index moves the vertex -/
theorem shift_ne (d : Nat) (v : Vtx) (A : List Nat) (hnd : A.Nodup) (hne : A ≠ []) (hle : ∀ i ∈ A, i ≤ d)
    (hmiss : ∃ i, i ≤ d ∧ i ∉ A) : ¬ EqOn d (shift d v A) v := by
  intro heq
  have hcount : ∀ i, (A.count i : Int) = if i ∈ A then 1 else 0 := by
    intro i
    rw [hnd.count]
    split <;> rfl
  by_cases hd : d ∈ A
  · -- some j < d is missing: its coordinate decreases
    obtain ⟨i, hile, hiA⟩ := hmiss
    have hid : i < d := by
      rcases Nat.lt_or_eq_of_le hile with h | h
      · exact h
      · exact absurd (h ▸ hd) hiA
    have := heq i hid
    rw [shift_apply d A v i hid, hcount i, hcount d] at this
    simp only [hiA, hd, if_true, if_false] at this
    omega
  · -- d is not used: some j < d in A increases
    obtain ⟨a, ha⟩ := List.exists_mem_of_ne_nil A hne
    have had : a < d := by
      rcases Nat.lt_or_eq_of_le (hle a ha) with h | h
      · exact h
      · exact absurd (h ▸ ha) hd
    have := heq a had
    rw [shift_apply d A v a had, hcount a, hcount d] at this
    simp only [ha, hd, if_true, if_false] at this
    omega


theorem take_flatten_split (ps : List (List Nat)) (m m' : Nat) (h : m ≤ m') :
    (ps.take m').flatten = (ps.take m).flatten ++ ((ps.drop m).take (m' - m)).flatten := by
  have : ps.take m' = ps.take m ++ (ps.drop m).take (m' - m) := by
    have e : m' = m + (m' - m) := by omega
    conv => lhs; rw [e]
    exact List.take_add
  rw [this, List.flatten_append]

/-- **the k+1 vertices of a permutahedral representation are pairwise distinct** -/
theorem verts_distinct (d : Nat) (v : Vtx) (ps : List (List Nat)) (hv : ValidParts d ps) (m m' : Nat)
    (hmm : m < m') (hm' : m' < ps.length) :
    ¬ EqOn d ((verts d v ps).getD m' v) ((verts d v ps).getD m v) := by
  rw [verts_getD d ps v m' hm', verts_getD d ps v m (by omega), take_flatten_split ps m m' (by omega), shift_append]
  obtain ⟨hperm, hnonempty⟩ := hv
  have hnd : ps.flatten.Nodup := hperm.nodup_iff.mpr List.nodup_range
  have hle : ∀ i ∈ ps.flatten, i ≤ d := by
    intro i hi
    have := hperm.mem_iff.mp hi
    simp at this; omega
  -- decompose ps = take m ++ mid ++ drop m'
  have hsplit : ps = ps.take m ++ ((ps.drop m).take (m' - m) ++ ps.drop m') := by
    have e1 : ps = ps.take m ++ ps.drop m := (List.take_append_drop m ps).symm
    have e2 : ps.drop m = (ps.drop m).take (m' - m) ++ (ps.drop m).drop (m' - m) := (List.take_append_drop _ _).symm
    have e3 : (ps.drop m).drop (m' - m) = ps.drop m' := by rw [List.drop_drop]; congr 1; omega
    rw [e3] at e2
    conv => lhs; rw [e1, e2]
  have hflat : ps.flatten = (ps.take m).flatten ++ (((ps.drop m).take (m' - m)).flatten ++ (ps.drop m').flatten) := by
    conv => lhs; rw [hsplit]
    simp [List.flatten_append]
  rw [hflat] at hnd hle
  have hndA := (List.nodup_append.mp (List.nodup_append.mp hnd).2.1).1
  apply shift_ne d _ _ hndA
  · -- the middle segment is non-empty: it contains the part ps[m]
    have hmlen : m < ps.length := by omega
    have hpm : ps[m] ∈ (ps.drop m).take (m' - m) := by
      have : (ps.drop m).take (m' - m) = ps[m] :: ((ps.drop (m + 1)).take (m' - m - 1)) := by
        rw [List.drop_eq_getElem_cons hmlen]
        have : m' - m = (m' - m - 1) + 1 := by omega
        rw [this, List.take_succ_cons]
        simp
      rw [this]; exact List.mem_cons_self
    have hne := hnonempty ps[m] (List.getElem_mem hmlen)
    obtain ⟨x, hx⟩ := List.exists_mem_of_ne_nil _ hne
    intro h0
    have : x ∈ ((ps.drop m).take (m' - m)).flatten := List.mem_flatten.mpr ⟨ps[m], hpm, hx⟩
    rw [h0] at this; cases this
  · intro i hi
    exact hle i (List.mem_append_right _ (List.mem_append_left _ hi))
  · -- an index of the part ps[m'] is missed
    have hne := hnonempty ps[m'] (List.getElem_mem hm')
    obtain ⟨x, hx⟩ := List.exists_mem_of_ne_nil _ hne
    have hxr : x ∈ (ps.drop m').flatten := by
      have hmem : ps[m'] ∈ ps.drop m' := by rw [List.drop_eq_getElem_cons hm']; exact List.mem_cons_self
      exact List.mem_flatten.mpr ⟨ps[m'], hmem, hx⟩
    refine ⟨x, hle x (List.mem_append_right _ (List.mem_append_right _ hxr)), ?_⟩
    intro hxA
    have hdisj := (List.nodup_append.mp (List.nodup_append.mp hnd).2.1).2.2
    exact hdisj x hxA x hxr rfl


/-! ### `face_from_indices` -/

/-- the parts `h-1` of the face, `h = 1..k`: the concatenation of the parts `I[h-1] .. I[h]-1` of the simplex -/
def segs (ps : List (List Nat)) : List Nat → List (List Nat)
  | i :: j :: rest => ((ps.drop i).take (j - i)).flatten :: segs ps (j :: rest)
  | _ => []

/-- the ordered partition built by `face_from_indices` (before the final per-part `std::sort`, which does not change
    any vertex because `shift` only counts occurrences): the middle parts, then the wrap-around part -/
def faceParts (ps : List (List Nat)) (I : List Nat) : List (List Nat) :=
  segs ps I ++ [(ps.drop (I.getLast?.getD 0)).flatten ++ (ps.take (I.headD 0)).flatten]

/-- the base vertex of the face: the simplex's vertex moved by the parts before `I[0]` -/
def faceVertex (d : Nat) (v : Vtx) (ps : List (List Nat)) (I : List Nat) : Vtx :=
  shift d v (ps.take (I.headD 0)).flatten

theorem segs_length (ps : List (List Nat)) : ∀ I : List Nat, (segs ps I).length = I.length - 1 := by
  intro I
  induction I with
  | nil => rfl
  | cons i I ih =>
    cases I with
    | nil => rfl
    | cons j rest => simp only [segs, List.length_cons, ih]; simp

theorem getD_ge_head : ∀ (I : List Nat) (i0 : Nat), (i0 :: I).Pairwise (· ≤ ·) → ∀ h, h < (i0 :: I).length →
    i0 ≤ (i0 :: I).getD h 0 := by
  intro I i0 hp h hh
  cases h with
  | zero => simp
  | succ h =>
    have hlt : h < I.length := by simpa using hh
    have hmem : I.getD h 0 ∈ I := by
      rw [List.getD_eq_getElem?_getD, List.getElem?_eq_getElem hlt]; simp
    simpa using (List.pairwise_cons.mp hp).1 _ hmem

/-- telescoping: the first `h` middle parts together are the parts `I[0] .. I[h]-1` of the simplex -/
theorem segs_take_flatten (ps : List (List Nat)) : ∀ (I : List Nat) (i0 : Nat), (i0 :: I).Pairwise (· ≤ ·) →
    ∀ h, h < (i0 :: I).length →
    ((segs ps (i0 :: I)).take h).flatten = ((ps.drop i0).take ((i0 :: I).getD h 0 - i0)).flatten := by
  intro I
  induction I with
  | nil =>
    intro i0 _ h hh
    have : h = 0 := by simpa using hh
    subst this; simp [segs]
  | cons j rest ih =>
    intro i0 hp h hh
    cases h with
    | zero => simp
    | succ h =>
      have hp' : (j :: rest).Pairwise (· ≤ ·) := (List.pairwise_cons.mp hp).2
      have hij : i0 ≤ j := (List.pairwise_cons.mp hp).1 j List.mem_cons_self
      have hh' : h < (j :: rest).length := by simpa using hh
      have hjle : j ≤ (j :: rest).getD h 0 := getD_ge_head rest j hp' h hh'
      simp only [segs, List.take_succ_cons, List.flatten_cons, List.getD_cons_succ]
      rw [ih j hp' h hh']
      have := take_flatten_split (ps.drop i0) (j - i0) ((j :: rest).getD h 0 - i0) (by omega)
      rw [this, List.drop_drop]
      have e1 : i0 + (j - i0) = j := by omega
      have e2 : (j :: rest).getD h 0 - i0 - (j - i0) = (j :: rest).getD h 0 - j := by omega
      rw [e1, e2]

/-- **`face_from_indices` selects exactly the requested vertices**: the h-th vertex of the face is the `I[h]`-th vertex of
    the simplex -/
theorem face_spec (d : Nat) (v : Vtx) (ps : List (List Nat)) (i0 : Nat) (I : List Nat)
    (hp : (i0 :: I).Pairwise (· ≤ ·)) (hlt : ∀ i ∈ i0 :: I, i < ps.length) (h : Nat) (hh : h < (i0 :: I).length) :
    (verts d (faceVertex d v ps (i0 :: I)) (faceParts ps (i0 :: I))).getD h (faceVertex d v ps (i0 :: I))
      = (verts d v ps).getD ((i0 :: I).getD h 0) v := by
  have hlenF : (faceParts ps (i0 :: I)).length = (i0 :: I).length := by
    simp [faceParts, segs_length]
  have hIh : (i0 :: I).getD h 0 < ps.length := by
    apply hlt
    rw [List.getD_eq_getElem?_getD, List.getElem?_eq_getElem hh]; simp
  have hge := getD_ge_head I i0 hp h hh
  rw [verts_getD d _ _ h (by rw [hlenF]; exact hh), verts_getD d ps v _ hIh]
  have htake : (faceParts ps (i0 :: I)).take h = (segs ps (i0 :: I)).take h := by
    unfold faceParts
    rw [List.take_append_of_le_length (by rw [segs_length]; simp at hh ⊢; omega)]
  rw [htake, segs_take_flatten ps I i0 hp h hh]
  unfold faceVertex
  simp only [List.headD_cons]
  rw [← shift_append, ← take_flatten_split ps i0 _ hge]

/-- the per-part `std::sort` at the end of `face_from_indices` (and any other reordering inside a part) is invisible -/
theorem shift_perm (d : Nat) (v : Vtx) {p q : List Nat} (h : p.Perm q) : EqOn d (shift d v p) (shift d v q) := by
  intro j hj
  rw [shift_apply d p v j hj, shift_apply d q v j hj, h.count_eq j, h.count_eq d]

-- the triangle of the Freudenthal triangulation of the plane with v = (0,0), ω = [{0},{1},{2}]: (0,0), (1,0), (1,1)
#eval (verts 2 (fun _ => 0) [[0],[1],[2]]).map fun f => (List.range 2).map f
-- its edge {v_0, v_2}
#eval (verts 2 (faceVertex 2 (fun _ => 0) [[0],[1],[2]] [0,2]) (faceParts [[0],[1],[2]] [0,2])).map fun f => (List.range 2).map f

#print axioms shift_apply
#print axioms shift_ne
#print axioms verts_distinct
#print axioms face_spec
#print axioms shift_perm
end PermProto
