import GudhiVerif.Axpy
/-! Prototype: the standard column reduction over Z_p on sparse columns `List (row, coefficient)`, in place
    (this is `RU_matrix::_reduce_column` / `_reduce_column_by` for Z_p, with V updated by the same column operation).
    Core Lean only: the model and its structural invariants (sortedness, coefficient range, support). -/
namespace ReducePProto
open AxpyProto

def low : Col → Option Nat
  | [] => none
  | [e] => some e.1
  | _ :: e :: t => low (e :: t)

def lowCoef : Col → Nat
  | [] => 0
  | [e] => e.2
  | _ :: e :: t => lowCoef (e :: t)

/-- modular inverse by Fermat, `x^(p-2) mod p` -/
def powMod (p : Nat) (x : Nat) : Nat → Nat
  | 0 => 1 % p
  | n + 1 => (powMod p x n * x) % p

def inv (p x : Nat) : Nat := powMod p x (p - 2)

/-- coefficient that cancels the lowest entry: `−x · y⁻¹ (mod p)` -/
def cancel (p x y : Nat) : Nat := (p - (x * inv p y) % p) % p

abbrev Owner := List (Nat × Nat)
def lookup (o : Owner) (i : Nat) : Option Nat :=
  match o with
  | [] => none
  | (r, k) :: t => if r = i then some k else lookup t i

def reduceAt (p : Nat) (o : Owner) (j : Nat) : Nat → List Col → List Col → List Col × List Col
  | 0, R, V => (R, V)
  | fuel + 1, R, V =>
    match low (R.getD j []) with
    | none => (R, V)
    | some i =>
      match lookup o i with
      | none => (R, V)
      | some k =>
        let c := cancel p (lowCoef (R.getD j [])) (lowCoef (R.getD k []))
        reduceAt p o j fuel (R.set j (axpy p c (R.getD j []) (R.getD k [])))
                            (V.set j (axpy p c (V.getD j []) (V.getD k [])))

structure S where
  R : List Col
  V : List Col
  o : Owner

def stepCol (p n : Nat) (s : S) (j : Nat) : S :=
  let res := reduceAt p s.o j (n + 1) s.R s.V
  { R := res.1, V := res.2,
    o := match low (res.1.getD j []) with | none => s.o | some i => (i, j) :: s.o }

def idCols (n : Nat) : List Col := (List.range n).map fun j => [(j, 1)]

def reduceAll (p n : Nat) (D : List Col) : S := (List.range n).foldl (stepCol p n) ⟨D, idCols n, []⟩

def pairs (s : S) : List (Nat × Option Nat) :=
  let n := s.R.length
  (s.o.map fun (i, k) => (i, some k)) ++
    (((List.range n).filter fun j => (s.R.getD j []) == [] && (lookup s.o j).isNone).map fun j => (j, none))

-- triangle with edges {0,2},{1,2},{0,1} and the 2-cell, signed boundaries over Z_3 (coefficient 2 = −1)
#eval pairs (reduceAll 3 7 [[], [], [], [(0,2),(2,1)], [(1,2),(2,1)], [(0,2),(1,1)], [(3,2),(4,1),(5,1)]])
#eval (reduceAll 3 7 [[], [], [], [(0,2),(2,1)], [(1,2),(2,1)], [(0,2),(1,1)], [(3,2),(4,1),(5,1)]]).R

/-- rows of a column -/
def rows (c : Col) : List Nat := c.map (·.1)

theorem rows_consNZ (r x : Nat) (t : Col) : ∀ z ∈ rows (consNZ r x t), z = r ∨ z ∈ rows t := by
  intro z hz
  unfold consNZ at hz
  split at hz
  · exact Or.inr hz
  · simp only [rows, List.map_cons, List.mem_cons] at hz
    rcases hz with h | h
    · exact Or.inl h
    · exact Or.inr h

theorem rows_axpy (p c : Nat) (a b : Col) : ∀ z ∈ rows (axpy p c a b), z ∈ rows a ∨ z ∈ rows b := by
  induction a, b using axpy.induct with
  | case1 => intro z hz; simp [axpy, rows] at hz
  | case2 r x a => intro z hz; rw [axpy] at hz; exact Or.inl hz
  | case3 s y b ih =>
    intro z hz
    rw [axpy] at hz
    rcases rows_consNZ _ _ _ z hz with h | h
    · right; simp [rows, h]
    · rcases ih z h with h' | h'
      · simp [rows] at h'
      · right; simp only [rows, List.map_cons, List.mem_cons]; right; exact h'
  | case4 r x a s y b hlt ih =>
    intro z hz
    rw [axpy] at hz; simp only [hlt, if_true, rows, List.map_cons, List.mem_cons] at hz
    rcases hz with h | h
    · left; simp [rows, h]
    · rcases ih z h with h' | h'
      · left; simp only [rows, List.map_cons, List.mem_cons]; right; exact h'
      · right; exact h'
  | case5 r x a s y b hlt hgt ih =>
    intro z hz
    rw [axpy] at hz; simp only [hlt, hgt, if_false, if_true] at hz
    rcases rows_consNZ _ _ _ z hz with h | h
    · right; simp [rows, h]
    · rcases ih z h with h' | h'
      · left; exact h'
      · right; simp only [rows, List.map_cons, List.mem_cons]; right; exact h'
  | case6 r x a s y b hlt hgt ih =>
    intro z hz
    rw [axpy] at hz; simp only [hlt, hgt, if_false] at hz
    rcases rows_consNZ _ _ _ z hz with h | h
    · left; simp [rows, h]
    · rcases ih z h with h' | h'
      · left; simp only [rows, List.map_cons, List.mem_cons]; right; exact h'
      · right; simp only [rows, List.map_cons, List.mem_cons]; right; exact h'

#print axioms rows_axpy
end ReducePProto

namespace ReducePProto
open AxpyProto

theorem _root_.AxpyProto.Sorted.rows_gt {r x : Nat} {t : Col} (hs : Sorted ((r, x) :: t)) : ∀ z ∈ rows t, r < z := by
  induction t generalizing r x with
  | nil => intro z hz; simp [rows] at hz
  | cons h t ih =>
    obtain ⟨r', x'⟩ := h
    intro z hz
    simp only [rows, List.map_cons, List.mem_cons] at hz
    rcases hz with rfl | hz
    · exact hs.1
    · exact Nat.lt_trans hs.1 (ih hs.2 z (by simpa [rows] using hz))

theorem sorted_cons {r x : Nat} {t : Col} (h1 : ∀ z ∈ rows t, r < z) (h2 : Sorted t) : Sorted ((r, x) :: t) := by
  cases t with
  | nil => trivial
  | cons h t' => obtain ⟨r', x'⟩ := h; exact ⟨h1 r' (by simp [rows]), h2⟩

theorem sorted_consNZ {r x : Nat} {t : Col} (h1 : ∀ z ∈ rows t, r < z) (h2 : Sorted t) : Sorted (consNZ r x t) := by
  unfold consNZ; split
  · exact h2
  · exact sorted_cons h1 h2

theorem sorted_axpy (p c : Nat) (a b : Col) (ha : Sorted a) (hb : Sorted b) : Sorted (axpy p c a b) := by
  induction a, b using axpy.induct with
  | case1 => simp [axpy, Sorted]
  | case2 r x a => rw [axpy]; exact ha
  | case3 s y b ih =>
    rw [axpy]
    apply sorted_consNZ
    · intro z hz
      rcases rows_axpy p c [] b z hz with h | h
      · simp [rows] at h
      · exact hb.rows_gt z h
    · exact ih trivial hb.tail
  | case4 r x a s y b hlt ih =>
    rw [axpy]; simp only [hlt, if_true]
    apply sorted_cons
    · intro z hz
      rcases rows_axpy p c a ((s, y) :: b) z hz with h | h
      · exact ha.rows_gt z h
      · simp only [rows, List.map_cons, List.mem_cons] at h
        rcases h with rfl | h
        · exact hlt
        · exact Nat.lt_trans hlt (hb.rows_gt z (by simpa [rows] using h))
    · exact ih ha.tail hb
  | case5 r x a s y b hlt hgt ih =>
    rw [axpy]; simp only [hlt, hgt, if_false, if_true]
    apply sorted_consNZ
    · intro z hz
      rcases rows_axpy p c ((r, x) :: a) b z hz with h | h
      · simp only [rows, List.map_cons, List.mem_cons] at h
        rcases h with rfl | h
        · exact hgt
        · exact Nat.lt_trans hgt (ha.rows_gt z (by simpa [rows] using h))
      · exact hb.rows_gt z h
    · exact ih ha hb.tail
  | case6 r x a s y b hlt hgt ih =>
    have hrs : r = s := by omega
    subst hrs
    rw [axpy]; simp only [Nat.lt_irrefl, if_false]
    apply sorted_consNZ
    · intro z hz
      rcases rows_axpy p c a b z hz with h | h
      · exact ha.rows_gt z h
      · exact hb.rows_gt z h
    · exact ih ha.tail hb.tail

/-- coefficients in the canonical range `(0, p)` -/
def Canon (p : Nat) (c : Col) : Prop := ∀ e ∈ c, 0 < e.2 ∧ e.2 < p

theorem canon_consNZ {p r x : Nat} {t : Col} (hx : x < p) (ht : Canon p t) : Canon p (consNZ r x t) := by
  unfold consNZ; split
  · exact ht
  · rename_i h0
    intro e he
    rcases List.mem_cons.mp he with rfl | he'
    · exact ⟨Nat.pos_of_ne_zero h0, hx⟩
    · exact ht e he'

theorem canon_axpy (p c : Nat) (hp : 0 < p) (a b : Col) (ha : Canon p a) : Canon p (axpy p c a b) := by
  induction a, b using axpy.induct with
  | case1 => intro e he; simp [axpy] at he
  | case2 r x a => rw [axpy]; exact ha
  | case3 s y b ih => rw [axpy]; exact canon_consNZ (Nat.mod_lt _ hp) (ih (by intro e he; cases he))
  | case4 r x a s y b hlt ih =>
    rw [axpy]; simp only [hlt, if_true]
    intro e he
    rcases List.mem_cons.mp he with rfl | he'
    · exact ha _ List.mem_cons_self
    · exact ih (fun e he => ha e (List.mem_cons_of_mem _ he)) e he'
  | case5 r x a s y b hlt hgt ih =>
    rw [axpy]; simp only [hlt, hgt, if_false, if_true]
    exact canon_consNZ (Nat.mod_lt _ hp) (ih ha)
  | case6 r x a s y b hlt hgt ih =>
    rw [axpy]; simp only [hlt, hgt, if_false]
    exact canon_consNZ (Nat.mod_lt _ hp) (ih (fun e he => ha e (List.mem_cons_of_mem _ he)))

/-- for a canonical sorted column: `coeff c i = 0 ↔ i ∉ rows c` -/
theorem coeff_eq_zero_iff {p : Nat} (c : Col) (hc : Canon p c) (i : Nat) : coeff c i = 0 ↔ i ∉ rows c := by
  induction c with
  | nil => simp [coeff, rows]
  | cons h t ih =>
    obtain ⟨r, x⟩ := h
    simp only [coeff, rows, List.map_cons, List.mem_cons]
    have hx := (hc (r, x) List.mem_cons_self).1
    have ih' := ih (fun e he => hc e (List.mem_cons_of_mem _ he))
    simp only [rows] at ih'
    by_cases hri : r = i
    · subst hri
      simp only [if_true]
      constructor
      · intro h0; simp only at hx; omega
      · intro h; exact absurd (Or.inl trivial) h
    · simp only [hri, if_false]
      rw [ih']
      constructor
      · intro h hc'; rcases hc' with h1 | h1
        · exact hri h1.symm
        · exact h h1
      · intro h h1; exact h (Or.inr h1)

#print axioms sorted_axpy
#print axioms canon_axpy
#print axioms coeff_eq_zero_iff

/-! ### lowest entry -/

theorem low_mem {c : Col} {i : Nat} (h : low c = some i) : i ∈ rows c := by
  induction c using low.induct with
  | case1 => simp [low] at h
  | case2 e => simp only [low, Option.some.injEq] at h; simp [rows, h]
  | case3 e0 e t ih =>
    rw [low] at h
    have := ih h
    simp only [rows, List.map_cons, List.mem_cons] at this ⊢
    exact Or.inr this

theorem low_none_iff {c : Col} : low c = none ↔ c = [] := by
  induction c using low.induct with
  | case1 => simp [low]
  | case2 e => simp [low]
  | case3 e0 e t ih => rw [low]; simp only [ih]; simp

theorem low_max {c : Col} (hs : Sorted c) {i : Nat} (h : low c = some i) : ∀ z ∈ rows c, z ≤ i := by
  induction c using low.induct with
  | case1 => simp [low] at h
  | case2 e =>
    simp only [low, Option.some.injEq] at h
    intro z hz; simp only [rows, List.map_cons, List.map_nil, List.mem_cons, List.not_mem_nil, or_false] at hz
    omega
  | case3 e0 e t ih =>
    rw [low] at h
    obtain ⟨r0, x0⟩ := e0
    have ih' := ih hs.tail h
    intro z hz
    simp only [rows, List.map_cons, List.mem_cons] at hz
    rcases hz with rfl | hz
    · have h1 : z < e.1 := hs.rows_gt e.1 (by simp [rows])
      have h2 := ih' e.1 (by simp [rows])
      omega
    · exact ih' z (by simpa [rows] using hz)

theorem coeff_low {c : Col} (hs : Sorted c) {i : Nat} (h : low c = some i) : coeff c i = lowCoef c := by
  induction c using low.induct with
  | case1 => simp [low] at h
  | case2 e =>
    obtain ⟨r, x⟩ := e
    simp only [low, Option.some.injEq] at h
    simp [coeff, lowCoef, h]
  | case3 e0 e t ih =>
    rw [low] at h
    obtain ⟨r0, x0⟩ := e0
    have hne : r0 ≠ i := by
      have := hs.rows_gt i (low_mem h)
      omega
    rw [lowCoef, ← ih hs.tail h]
    simp only [coeff, hne, if_false]

theorem coeff_lt {p : Nat} (hp : 0 < p) {c : Col} (hc : Canon p c) (i : Nat) : coeff c i < p := by
  induction c with
  | nil => exact hp
  | cons h t ih =>
    obtain ⟨r, x⟩ := h
    simp only [coeff]
    split
    · exact (hc (r, x) List.mem_cons_self).2
    · exact ih (fun e he => hc e (List.mem_cons_of_mem _ he))

theorem lowCoef_range {p : Nat} (hp : 0 < p) {c : Col} (hs : Sorted c) (hc : Canon p c) {i : Nat}
    (h : low c = some i) : 0 < lowCoef c ∧ lowCoef c < p := by
  rw [← coeff_low hs h]
  refine ⟨?_, coeff_lt hp hc i⟩
  apply Nat.pos_of_ne_zero
  intro h0
  exact ((coeff_eq_zero_iff c hc i).mp h0) (low_mem h)

/-- if the added multiple cancels the common lowest entry, the lowest entry strictly decreases -/
theorem low_axpy_lt {p c : Nat} (hp : 0 < p) {a b : Col} (ha : Sorted a) (hb : Sorted b) (hca : Canon p a) {i : Nat}
    (hla : low a = some i) (hlb : low b = some i) (hz : (coeff a i + c * coeff b i) % p = 0) :
    ∀ i', low (axpy p c a b) = some i' → i' < i := by
  intro i' hi'
  have hmem := low_mem hi'
  have hle : i' ≤ i := by
    rcases rows_axpy p c a b i' hmem with h | h
    · exact low_max ha hla i' h
    · exact low_max hb hlb i' h
  have hne : i' ≠ i := by
    intro he
    subst he
    have h0 : coeff (axpy p c a b) i' = 0 := by
      rw [coeff_axpy p c a b ha hb (fun e he => (hca e he).2)]; exact hz
    exact ((coeff_eq_zero_iff _ (canon_axpy p c hp a b hca) i').mp h0) hmem
  omega

/-! ### well-formed column lists -/

def WFc (p n : Nat) (c : Col) : Prop := Sorted c ∧ Canon p c ∧ ∀ z ∈ rows c, z < n
def WF (p n : Nat) (cols : List Col) : Prop := ∀ c ∈ cols, WFc p n c

theorem wfc_nil (p n : Nat) : WFc p n [] :=
  ⟨trivial, (fun e he => by cases he), (fun z hz => by simp [rows] at hz)⟩

theorem getD_wf {p n : Nat} {cols : List Col} (h : WF p n cols) (k : Nat) : WFc p n (cols.getD k []) := by
  rw [List.getD_eq_getElem?_getD]
  cases hk : cols[k]? with
  | none => exact wfc_nil p n
  | some c => exact h c (List.mem_of_getElem? hk)

theorem wfc_axpy {p n : Nat} (hp : 0 < p) (c : Nat) {a b : Col} (ha : WFc p n a) (hb : WFc p n b) :
    WFc p n (axpy p c a b) :=
  ⟨sorted_axpy p c a b ha.1 hb.1, canon_axpy p c hp a b ha.2.1, fun z hz => by
    rcases rows_axpy p c a b z hz with h | h
    · exact ha.2.2 z h
    · exact hb.2.2 z h⟩

theorem wf_set {p n : Nat} {cols : List Col} (h : WF p n cols) (j : Nat) {c : Col} (hc : WFc p n c) :
    WF p n (cols.set j c) := by
  intro c' hc'
  rcases List.mem_or_eq_of_mem_set hc' with h' | h'
  · exact h c' h'
  · exact h' ▸ hc

theorem getD_set_ne {cols : List Col} {j m : Nat} (c : Col) (h : m ≠ j) :
    (cols.set j c).getD m [] = cols.getD m [] := by
  simp [List.getD_eq_getElem?_getD, List.getElem?_set_ne (Ne.symm h)]

theorem getD_set_eq {cols : List Col} {j : Nat} (c : Col) (h : j < cols.length) :
    (cols.set j c).getD j [] = c := by
  simp [List.getD_eq_getElem?_getD, List.getElem?_set_self h]

/-! ### the inner loop -/

theorem reduceAt_wf {p n : Nat} (hp : 0 < p) (o : Owner) (j : Nat) : ∀ (fuel : Nat) (R V : List Col),
    WF p n R → WF p n V →
    WF p n (reduceAt p o j fuel R V).1 ∧ WF p n (reduceAt p o j fuel R V).2 ∧
    (reduceAt p o j fuel R V).1.length = R.length ∧ (reduceAt p o j fuel R V).2.length = V.length := by
  intro fuel
  induction fuel with
  | zero => intro R V hR hV; exact ⟨hR, hV, rfl, rfl⟩
  | succ fuel ih =>
    intro R V hR hV
    simp only [reduceAt]
    cases hl : low (R.getD j []) with
    | none => exact ⟨hR, hV, rfl, rfl⟩
    | some i =>
      simp only
      cases hk : lookup o i with
      | none => exact ⟨hR, hV, rfl, rfl⟩
      | some k =>
        simp only
        have := ih _ _ (wf_set hR j (wfc_axpy hp (cancel p (lowCoef (R.getD j [])) (lowCoef (R.getD k [])))
                  (getD_wf hR j) (getD_wf hR k)))
                (wf_set hV j (wfc_axpy hp (cancel p (lowCoef (R.getD j [])) (lowCoef (R.getD k [])))
                  (getD_wf hV j) (getD_wf hV k)))
        simpa using this

/-- the inner loop touches only column `j` -/
theorem reduceAt_other (p : Nat) (o : Owner) (j : Nat) : ∀ (fuel : Nat) (R V : List Col) (m : Nat), m ≠ j →
    (reduceAt p o j fuel R V).1.getD m [] = R.getD m [] ∧ (reduceAt p o j fuel R V).2.getD m [] = V.getD m [] := by
  intro fuel
  induction fuel with
  | zero => intro R V m _; exact ⟨rfl, rfl⟩
  | succ fuel ih =>
    intro R V m hm
    simp only [reduceAt]
    cases hl : low (R.getD j []) with
    | none => exact ⟨rfl, rfl⟩
    | some i =>
      simp only
      cases hk : lookup o i with
      | none => exact ⟨rfl, rfl⟩
      | some k =>
        simp only
        obtain ⟨h1, h2⟩ := ih (R.set j (axpy p (cancel p (lowCoef (R.getD j [])) (lowCoef (R.getD k [])))
            (R.getD j []) (R.getD k [])))
          (V.set j (axpy p (cancel p (lowCoef (R.getD j [])) (lowCoef (R.getD k []))) (V.getD j []) (V.getD k []))) m hm
        rw [h1, h2, getD_set_ne _ hm, getD_set_ne _ hm]
        exact ⟨rfl, rfl⟩

/-- what the field must provide: the cancelling coefficient cancels -/
def CancelOK (p : Nat) : Prop := ∀ x y, 0 < y → y < p → x < p → (x + cancel p x y * y) % p = 0

/-- with enough fuel the loop exits on a free pivot -/
theorem reduceAt_exit {p n : Nat} (hp : 0 < p) (hc : CancelOK p) (o : Owner) (j : Nat)
    : ∀ (fuel : Nat) (R V : List Col), j < R.length → WF p n R →
      (∀ i k, lookup o i = some k → k ≠ j ∧ low (R.getD k []) = some i) →
      (∀ i, low (R.getD j []) = some i → i < fuel) →
      ∀ i, low ((reduceAt p o j fuel R V).1.getD j []) = some i → lookup o i = none := by
  intro fuel
  induction fuel with
  | zero =>
    intro R V _ _ _ hf i hi
    simp only [reduceAt] at hi
    exact absurd (hf i hi) (Nat.not_lt_zero _)
  | succ fuel ih =>
    intro R V hj hs hown hf i hi
    cases hl : low (R.getD j []) with
    | none =>
      have e : reduceAt p o j (fuel + 1) R V = (R, V) := by simp only [reduceAt, hl]
      rw [e] at hi; simp only at hi; rw [hl] at hi; cases hi
    | some i0 =>
      cases hk : lookup o i0 with
      | none =>
        have e : reduceAt p o j (fuel + 1) R V = (R, V) := by simp only [reduceAt, hl, hk]
        rw [e] at hi; simp only at hi; rw [hl] at hi; cases hi; exact hk
      | some k =>
        have e : reduceAt p o j (fuel + 1) R V =
            reduceAt p o j fuel
              (R.set j (axpy p (cancel p (lowCoef (R.getD j [])) (lowCoef (R.getD k []))) (R.getD j []) (R.getD k [])))
              (V.set j (axpy p (cancel p (lowCoef (R.getD j [])) (lowCoef (R.getD k []))) (V.getD j []) (V.getD k []))) := by
          simp only [reduceAt, hl, hk]
        rw [e] at hi
        obtain ⟨hkj, hlowk⟩ := hown i0 k hk
        have hwj := getD_wf hs j
        have hwk := getD_wf hs k
        refine ih _ _ (by simpa using hj) (wf_set hs j (wfc_axpy hp _ hwj hwk)) ?_ ?_ i hi
        · intro i' k' hk'
          obtain ⟨h1, h2⟩ := hown i' k' hk'
          refine ⟨h1, ?_⟩
          rw [getD_set_ne _ h1]; exact h2
        · intro i' hi'
          rw [getD_set_eq _ hj] at hi'
          have hrk := lowCoef_range hp hwk.1 hwk.2.1 hlowk
          have hrj := lowCoef_range hp hwj.1 hwj.2.1 hl
          have hz : (coeff (R.getD j []) i0 +
              cancel p (lowCoef (R.getD j [])) (lowCoef (R.getD k [])) * coeff (R.getD k []) i0) % p = 0 := by
            rw [coeff_low hwj.1 hl, coeff_low hwk.1 hlowk]
            exact hc _ _ hrk.1 hrk.2 hrj.2
          have := low_axpy_lt hp hwj.1 hwk.1 hwj.2.1 hl hlowk hz i' hi'
          have := hf i0 hl
          omega

#print axioms reduceAt_wf
#print axioms reduceAt_other
#print axioms reduceAt_exit
end ReducePProto
