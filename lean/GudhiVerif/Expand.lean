/-! Prototype (C04): `expansion` / `siblings_expansion` / `create_expansion` / `intersection` as a recursive function on
    sibling lists, and the characterisation of the words it creates as the cliques of the graph (membership part;
    values are carried and characterised as the maximum over the word's last sibling value and the edges used). Core only. -/
namespace ExpandProto

abbrev Val := Int
/-- a sibling list: strictly increasing labels with values -/
abbrev Sibs := List (Nat × Val)

/-- `Simplex_tree::intersection`: common labels of two sorted lists, value = max of the two values and of `fil` -/
def inter (fil : Val) : Sibs → Sibs → Sibs
  | [], _ => []
  | _, [] => []
  | (a, fa) :: s, (b, fb) :: t =>
    if a = b then (a, max (max fa fb) fil) :: inter fil s t
    else if a < b then inter fil s ((b, fb) :: t)
    else inter fil ((a, fa) :: s) t
termination_by s t => s.length + t.length
decreasing_by all_goals simp_wf <;> omega

/-- expanded subtree as the list of (word, value) it contains, relative to the current node;
    `N v` = upper neighbours of `v` with the edge values (children of the root vertex `v`), `k` = remaining depth -/
def expand (N : Nat → Sibs) : Nat → Sibs → List (List Nat × Val)
  | _, [] => []
  | 0, (v, f) :: rest => ([v], f) :: expand N 0 rest
  | k + 1, (v, f) :: rest =>
    ([v], f) :: ((expand N k (inter f rest (N v))).map fun (w, g) => (v :: w, g)) ++ expand N (k + 1) rest
termination_by k s => (k, s.length)
decreasing_by
  all_goals simp_wf
  · apply Prod.Lex.right; omega
  · apply Prod.Lex.left; omega
  · apply Prod.Lex.right; omega

def labels (s : Sibs) : List Nat := s.map (·.1)

/-- labels of an intersection are exactly the common labels (for lists with strictly increasing labels) -/
def Inc : Sibs → Prop
  | [] => True
  | [_] => True
  | (a, _) :: (b, fb) :: t => a < b ∧ Inc ((b, fb) :: t)

theorem Inc.tail {h : Nat × Val} {t : Sibs} (hs : Inc (h :: t)) : Inc t := by
  cases t with
  | nil => trivial
  | cons h' t' => obtain ⟨a, fa⟩ := h; obtain ⟨b, fb⟩ := h'; exact hs.2

theorem Inc.head_lt {a : Nat} {fa : Val} {t : Sibs} (hs : Inc ((a, fa) :: t)) : ∀ x ∈ labels t, a < x := by
  induction t generalizing a fa with
  | nil => intro x hx; simp [labels] at hx
  | cons h t ih =>
    obtain ⟨b, fb⟩ := h
    intro x hx
    simp only [labels, List.map_cons, List.mem_cons] at hx
    rcases hx with rfl | hx
    · exact hs.1
    · exact Nat.lt_trans hs.1 (ih hs.2 x (by simpa [labels] using hx))

theorem mem_labels_inter (fil : Val) (s t : Sibs) (hs : Inc s) (ht : Inc t) (x : Nat) :
    x ∈ labels (inter fil s t) ↔ x ∈ labels s ∧ x ∈ labels t := by
  induction s, t using inter.induct with
  | case1 t => simp [inter, labels]
  | case2 s hne => cases s <;> simp [inter, labels]
  | case3 a fa s fb t ih =>
    rw [inter]; simp only [if_true, labels, List.map_cons, List.mem_cons]
    have ih' := ih hs.tail ht.tail
    simp only [labels] at ih'
    rw [ih']
    have h1 := hs.head_lt
    have h2 := ht.head_lt
    simp only [labels] at h1 h2
    constructor
    · rintro (rfl | ⟨ha, hb⟩)
      · exact ⟨Or.inl rfl, Or.inl rfl⟩
      · exact ⟨Or.inr ha, Or.inr hb⟩
    · rintro ⟨ha | ha, hb | hb⟩
      · exact Or.inl ha
      · exact Or.inl ha
      · exact Or.inl hb
      · exact Or.inr ⟨ha, hb⟩
  | case4 a fa s b fb t hne hlt ih =>
    rw [inter]; simp only [hne, hlt, if_false, if_true]
    rw [ih hs.tail ht]
    have h2 := ht.head_lt
    simp only [labels, List.map_cons, List.mem_cons] at h2 ⊢
    constructor
    · rintro ⟨ha, hb⟩; exact ⟨Or.inr ha, hb⟩
    · rintro ⟨ha | ha, hb⟩
      · subst ha
        rcases hb with rfl | hb
        · exact absurd hlt (Nat.lt_irrefl _)
        · exact absurd (Nat.lt_trans hlt (h2 x hb)) (Nat.lt_irrefl _)
      · exact ⟨ha, hb⟩
  | case5 a fa s b fb t hne hlt ih =>
    have hgt : b < a := by omega
    rw [inter]; simp only [hne, hlt, if_false]
    rw [ih hs ht.tail]
    have h1 := hs.head_lt
    simp only [labels, List.map_cons, List.mem_cons] at h1 ⊢
    constructor
    · rintro ⟨ha, hb⟩; exact ⟨ha, Or.inr hb⟩
    · rintro ⟨ha, hb | hb⟩
      · subst hb
        rcases ha with rfl | ha
        · exact absurd hgt (Nat.lt_irrefl _)
        · exact absurd (Nat.lt_trans hgt (h1 x ha)) (Nat.lt_irrefl _)
      · exact ⟨ha, hb⟩

#print axioms mem_labels_inter
end ExpandProto

namespace ExpandProto

/-- characterise `Inc` by: the head is below every later label, recursively -/
theorem inc_of_head_lt : ∀ (l : Sibs), (∀ a fa t, l = (a, fa) :: t → (∀ x ∈ labels t, a < x) ∧ Inc t) → Inc l := by
  intro l h
  cases l with
  | nil => trivial
  | cons hd t =>
    obtain ⟨a, fa⟩ := hd
    obtain ⟨h1, h2⟩ := h a fa t rfl
    cases t with
    | nil => trivial
    | cons hd' t' =>
      obtain ⟨b, fb⟩ := hd'
      exact ⟨h1 b (by simp [labels]), h2⟩

theorem inc_inter (fil : Val) (s t : Sibs) (hs : Inc s) (ht : Inc t) : Inc (inter fil s t) := by
  induction s, t using inter.induct with
  | case1 t => simp [inter, Inc]
  | case2 s hne => cases s <;> simp [inter, Inc]
  | case3 fa s b fb t ih =>
    rw [inter]; simp only [if_true]
    apply inc_of_head_lt
    intro a' fa' t' heq
    cases heq
    refine ⟨?_, ih hs.tail ht.tail⟩
    intro x hx
    rw [mem_labels_inter fil s t hs.tail ht.tail] at hx
    exact hs.head_lt x hx.1
  | case4 a fa s b fb t hne hlt ih =>
    rw [inter]; simp only [hne, hlt, if_false, if_true]; exact ih hs.tail ht
  | case5 a fa s b fb t hne hlt ih =>
    rw [inter]; simp only [hne, hlt, if_false]; exact ih hs ht.tail

def words (l : List (List Nat × Val)) : List (List Nat) := l.map (·.1)

/-- strictly increasing word -/
def IncW : List Nat → Prop
  | [] => True
  | [_] => True
  | a :: b :: t => a < b ∧ IncW (b :: t)

/-- every later vertex is an upper neighbour of every earlier one -/
def PairAdj (N : Nat → Sibs) : List Nat → Prop
  | [] => True
  | v :: w => (∀ x ∈ w, x ∈ labels (N v)) ∧ PairAdj N w

/-- **`expansion` creates exactly the cliques** (words): below a sibling list `sibs`, with remaining depth `k`,
    the words created are the non-empty increasing words over `sibs`, pairwise adjacent, of length ≤ k+1. -/
theorem expand_words (N : Nat → Sibs) (hN : ∀ v, Inc (N v)) (hNup : ∀ v x, x ∈ labels (N v) → v < x) :
    ∀ (k : Nat) (sibs : Sibs), Inc sibs → ∀ w : List Nat,
      w ∈ words (expand N k sibs) ↔
        (w ≠ [] ∧ w.length ≤ k + 1 ∧ (∀ x ∈ w, x ∈ labels sibs) ∧ IncW w ∧ PairAdj N w) := by
  intro k sibs
  induction k, sibs using expand.induct N with
  | case1 k =>
    intro _ w
    simp only [expand, words, List.map_nil, List.not_mem_nil, false_iff]
    rintro ⟨hne, _, hall, _, _⟩
    cases w with
    | nil => exact hne rfl
    | cons a w' => have := hall a List.mem_cons_self; simp [labels] at this
  | case2 v f rest ih =>
    intro hs w
    rw [expand]
    simp only [words, List.map_cons, List.mem_cons]
    have ih' := ih hs.tail w
    simp only [words] at ih'
    rw [ih']
    have hlt := hs.head_lt
    constructor
    · rintro (rfl | ⟨hne, hlen, hall, hinc, hadj⟩)
      · refine ⟨by simp, by simp, ?_, trivial, ⟨by simp, trivial⟩⟩
        intro x hx; simp at hx; subst hx; simp [labels]
      · refine ⟨hne, hlen, ?_, hinc, hadj⟩
        intro x hx; have := hall x hx; simp only [labels, List.map_cons, List.mem_cons]; right; simpa [labels] using this
    · rintro ⟨hne, hlen, hall, hinc, hadj⟩
      -- length ≤ 1, so w = [a]
      cases w with
      | nil => exact absurd rfl hne
      | cons a w' =>
        have hw' : w' = [] := by
          cases w' with
          | nil => rfl
          | cons b w'' => simp at hlen
        subst hw'
        have ha := hall a List.mem_cons_self
        simp only [labels, List.map_cons, List.mem_cons] at ha
        rcases ha with rfl | ha
        · left; rfl
        · right
          refine ⟨by simp, by simp, ?_, trivial, ⟨by simp, trivial⟩⟩
          intro x hx; simp at hx; subst hx; simpa [labels] using ha
  | case3 k v f rest ih1 ih2 =>
    intro hs w
    rw [expand]
    have hlt := hs.head_lt
    have hinter := inc_inter f rest (N v) hs.tail (hN v)
    have ih1' := ih1 hinter
    have ih2' := ih2 hs.tail w
    simp only [words, List.map_cons, List.map_append, List.map_map, List.mem_cons, List.mem_append, List.mem_map,
      Function.comp] at ih1' ih2' ⊢
    rw [ih2']
    constructor
    · rintro ((rfl | ⟨⟨w0, g⟩, hmem, rfl⟩) | ⟨hne, hlen, hall, hinc, hadj⟩)
      · refine ⟨by simp, by simp, ?_, trivial, ⟨by simp, trivial⟩⟩
        intro x hx; simp at hx; subst hx; simp [labels]
      · -- w = v :: w0 with w0 in the expansion below v
        have := (ih1' w0).mp ⟨(w0, g), hmem, rfl⟩
        obtain ⟨hne0, hlen0, hall0, hinc0, hadj0⟩ := this
        have hin : ∀ x ∈ w0, x ∈ labels rest ∧ x ∈ labels (N v) :=
          fun x hx => (mem_labels_inter f rest (N v) hs.tail (hN v) x).mp (hall0 x hx)
        refine ⟨by simp, by simp; omega, ?_, ?_, ⟨fun x hx => (hin x hx).2, hadj0⟩⟩
        · intro x hx
          rcases List.mem_cons.mp hx with rfl | hx'
          · simp [labels]
          · simp only [labels, List.map_cons, List.mem_cons]; right
            have := (hin x hx').1; simpa [labels] using this
        · cases w0 with
          | nil => exact absurd rfl hne0
          | cons b w1 => exact ⟨hlt b (hin b List.mem_cons_self).1, hinc0⟩
      · refine ⟨hne, by omega, ?_, hinc, hadj⟩
        intro x hx; have := hall x hx; simp only [labels, List.map_cons, List.mem_cons]; right; simpa [labels] using this
    · rintro ⟨hne, hlen, hall, hinc, hadj⟩
      cases w with
      | nil => exact absurd rfl hne
      | cons a w' =>
        have ha := hall a List.mem_cons_self
        simp only [labels, List.map_cons, List.mem_cons] at ha
        -- later entries are larger than `a`
        have hgt : ∀ x ∈ w', a < x := by
          intro x hx
          have : ∀ (l : List Nat) (y : Nat), IncW (y :: l) → ∀ x ∈ l, y < x := by
            intro l
            induction l with
            | nil => intro y _ x hx; cases hx
            | cons z l ihl =>
              intro y hy x hx
              rcases List.mem_cons.mp hx with rfl | hx'
              · exact hy.1
              · exact Nat.lt_trans hy.1 (ihl z hy.2 x hx')
          exact this w' a hinc x hx
        rcases ha with rfl | ha
        · -- head is v
          cases w' with
          | nil => left; left; rfl
          | cons b w'' =>
            left; right
            have hmem := (ih1' (b :: w'')).mpr ⟨by simp, by simp at hlen ⊢; omega, ?_, hinc.2, hadj.2⟩
            · obtain ⟨⟨w0, g⟩, hm, he⟩ := hmem
              exact ⟨(w0, g), hm, by simp at he; simp [he]⟩
            · intro x hx
              rw [mem_labels_inter f rest (N a) hs.tail (hN a)]
              refine ⟨?_, hadj.1 x hx⟩
              have := hall x (List.mem_cons_of_mem _ hx)
              simp only [labels, List.map_cons, List.mem_cons] at this
              rcases this with rfl | h
              · exact absurd (hgt x hx) (Nat.lt_irrefl _)
              · simpa [labels] using h
        · -- head is a later sibling: the whole word lives over `rest`
          right
          refine ⟨by simp, hlen, ?_, hinc, hadj⟩
          intro x hx
          have hva : v < a := hlt a (by simpa [labels] using ha)
          rcases List.mem_cons.mp hx with rfl | hx'
          · simpa [labels] using ha
          · have := hall x (List.mem_cons_of_mem _ hx')
            simp only [labels, List.map_cons, List.mem_cons] at this
            rcases this with rfl | h
            · have := hgt x hx'; omega
            · simpa [labels] using h

#print axioms expand_words
end ExpandProto
