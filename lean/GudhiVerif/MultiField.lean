import GudhiVerif.Model.Fields
import GudhiVerif.Crt
import Mathlib.Data.Nat.ModEq
import Mathlib.Algebra.BigOperators.Group.List.Basic
import Mathlib.Data.List.Prime
import Mathlib.Data.Nat.Prime.Basic
import Mathlib.Tactic.NormNum.Prime
import Mathlib.Data.Nat.Sqrt
/-! # C10 — the multi-field classes: partial multiplicative identities (theorems about `FieldsModel`)

`sqMul` (square-and-multiply as written) is modular exponentiation; the partial identity
`get_partial_multiplicative_identity(Q)` of a well-formed multi-field (distinct primes, `P` their product, partials the CRT
idempotents `(P/p)^(p-1) mod P`) is 1 modulo the primes dividing `Q` and 0 modulo the other primes of the field. -/
namespace MultiField
open FieldsModel

theorem sqMul_spec (P : Nat) : ∀ (fuel e b r : Nat), e < 2 ^ fuel → sqMul P fuel e b r % P = r * b ^ e % P := by
  intro fuel
  induction fuel with
  | zero => intro e b r h; have : e = 0 := by simpa using h
            subst this; simp [sqMul]
  | succ fuel ih =>
    intro e b r h
    by_cases he : e = 0
    · subst he; simp [sqMul]
    · rw [sqMul, if_neg he]
      have h2 : e / 2 < 2 ^ fuel := by
        rw [Nat.pow_succ] at h; omega
      rw [ih _ _ _ h2]
      have hb : (b * b % P) ^ (e / 2) ≡ (b * b) ^ (e / 2) [MOD P] := (Nat.mod_modEq _ _).pow _
      change (_ : Nat) ≡ _ [MOD P]
      by_cases hodd : e % 2 = 1
      · rw [if_pos hodd]
        have he2 : b ^ e = b * (b * b) ^ (e / 2) := by
          conv_lhs => rw [← Nat.div_add_mod e 2, hodd, Nat.pow_succ, Nat.pow_mul, Nat.pow_two]
          ring
        rw [he2, ← Nat.mul_assoc]
        exact (Nat.mod_modEq _ _).mul hb
      · rw [if_neg hodd]
        have hev : e % 2 = 0 := by omega
        have he2 : b ^ e = (b * b) ^ (e / 2) := by
          conv_lhs => rw [← Nat.div_add_mod e 2, hev, Nat.add_zero, Nat.pow_mul, Nat.pow_two]
        rw [he2]
        exact (Nat.ModEq.refl r).mul hb

/-! ### the partial identity as a sum of idempotents -/

/-- the loop of `get_partial_multiplicative_identity` -/
def pidFold (P Q : Nat) (l : List (Nat × Nat)) (acc : Nat) : Nat :=
  l.foldl (fun acc (pu : Nat × Nat) => if Q % pu.1 = 0 then (acc + pu.2) % P else acc) acc

theorem pidFold_modEq (P Q q : Nat) (hq : q ∣ P) : ∀ (l : List (Nat × Nat)) (acc : Nat),
    pidFold P Q l acc ≡ acc + ((l.filter fun pu => Q % pu.1 = 0).map (·.2)).sum [MOD q] := by
  intro l
  induction l with
  | nil => intro acc; simp [pidFold]; exact Nat.ModEq.refl _
  | cons pu l ih =>
    intro acc
    unfold pidFold at ih ⊢
    rw [List.foldl_cons]
    by_cases h : Q % pu.1 = 0
    · simp only [h, if_true]
      have h1 := ih ((acc + pu.2) % P)
      have h2 : (acc + pu.2) % P ≡ acc + pu.2 [MOD q] := (Nat.mod_modEq _ _).of_dvd hq
      have hf : ((pu :: l).filter fun pu => Q % pu.1 = 0) = pu :: (l.filter fun pu => Q % pu.1 = 0) := by
        simp [h]
      rw [hf, List.map_cons, List.sum_cons]
      calc _ ≡ (acc + pu.2) % P + ((l.filter fun pu => Q % pu.1 = 0).map (·.2)).sum [MOD q] := h1
        _ ≡ acc + pu.2 + ((l.filter fun pu => Q % pu.1 = 0).map (·.2)).sum [MOD q] := h2.add_right _
        _ = acc + (pu.2 + ((l.filter fun pu => Q % pu.1 = 0).map (·.2)).sum) := by ring
    · simp only [h, if_false]
      have hf : ((pu :: l).filter fun pu => Q % pu.1 = 0) = (l.filter fun pu => Q % pu.1 = 0) := by
        simp [h]
      rw [hf]
      exact ih acc

theorem zip_map_self (l : List Nat) (f : Nat → Nat) : l.zip (l.map f) = l.map fun a => (a, f a) := by
  induction l with
  | nil => rfl
  | cons a l ih => simp [ih]

theorem sum_indicator (L : List Nat) (hnd : L.Nodup) (q : Nat) :
    (L.map fun p => if p = q then 1 else 0).sum = if q ∈ L then 1 else 0 := by
  induction L with
  | nil => simp
  | cons a L ih =>
    rw [List.nodup_cons] at hnd
    rw [List.map_cons, List.sum_cons, ih hnd.2]
    by_cases h : a = q
    · subst h; simp [hnd.1]
    · have : ¬ q = a := fun e => h e.symm
      simp [h, this]

/-- the sum of a list is congruent to the sum of the residues -/
theorem sum_modEq (q : Nat) (L : List Nat) (f g : Nat → Nat) (h : ∀ p ∈ L, f p ≡ g p [MOD q]) :
    (L.map f).sum ≡ (L.map g).sum [MOD q] := by
  induction L with
  | nil => exact Nat.ModEq.refl _
  | cons a L ih =>
    rw [List.map_cons, List.map_cons, List.sum_cons, List.sum_cons]
    exact (h a (by simp)).add (ih fun p hp => h p (List.mem_cons_of_mem _ hp))

/-- **partial identity**: for distinct primes with `P` their product and `U p ≡ [p = q]` modulo every prime `q` of the
    list, the value computed for `Q` is 1 modulo the primes dividing `Q` and 0 modulo the others -/
theorem pid_spec (primes : List Nat) (hnd : primes.Nodup) (P Q : Nat) (U : Nat → Nat) (q : Nat) (hq : q ∈ primes)
    (hqP : q ∣ P) (hq2 : 2 ≤ q)
    (hU : ∀ p ∈ primes, U p % q = if p = q then 1 else 0) :
    pidFold P Q (primes.zip (primes.map U)) 0 % q = if Q % q = 0 then 1 else 0 := by
  have h1 := pidFold_modEq P Q q hqP (primes.zip (primes.map U)) 0
  rw [zip_map_self, Nat.zero_add] at h1
  have hfil : ((primes.map fun a => (a, U a)).filter fun pu => Q % pu.1 = 0).map (·.2) =
      (primes.filter fun p => Q % p = 0).map U := by
    rw [List.filter_map, List.map_map]; rfl
  rw [hfil] at h1
  have hsub : ∀ p ∈ primes.filter (fun p => Q % p = 0), U p ≡ (if p = q then 1 else 0) [MOD q] := by
    intro p hp
    have hp' := (List.mem_filter.mp hp).1
    unfold Nat.ModEq
    rw [hU p hp']
    by_cases e : p = q
    · simp [e, Nat.mod_eq_of_lt hq2]
    · simp [e]
  have h2 := sum_modEq q _ U (fun p => if p = q then 1 else 0) hsub
  have h3 := sum_indicator (primes.filter fun p => Q % p = 0) (hnd.filter _) q
  have h4 : pidFold P Q (primes.zip (primes.map U)) 0 ≡ (if q ∈ primes.filter (fun p => Q % p = 0) then 1 else 0) [MOD q] := by
    rw [← h3, zip_map_self]; exact h1.trans h2
  unfold Nat.ModEq at h4
  rw [h4]
  by_cases hQ : Q % q = 0
  · have : q ∈ primes.filter (fun p => Q % p = 0) := List.mem_filter.mpr ⟨hq, by simpa using hQ⟩
    simp [this, hQ, Nat.mod_eq_of_lt hq2]
  · have : ¬ q ∈ primes.filter (fun p => Q % p = 0) := by
      intro h; exact hQ (by simpa using (List.mem_filter.mp h).2)
    simp [this, hQ]

/-! ### the model's multi-field -/

/-- a multi-field as `mfInit` builds it: distinct primes (below 2⁶⁴, the range of the exponent loop), their product,
    the idempotents computed by square-and-multiply -/
structure WF (m : MF) : Prop where
  nodup : m.primes.Nodup
  prime : ∀ p ∈ m.primes, p.Prime
  small : ∀ p ∈ m.primes, p < 2 ^ 64
  prod : m.P = m.primes.prod
  partials : m.partials = m.primes.map fun p => sqMul m.P 64 (p - 1) (m.P / p % m.P) 1

theorem prod_div (L : List Nat) (hnd : L.Nodup) (hpr : ∀ p ∈ L, p.Prime) (p : Nat) (hp : p ∈ L) :
    L.prod / p = (L.erase p).prod ∧ Nat.Coprime (L.prod / p) p ∧ ∀ q ∈ L, q ≠ p → q ∣ L.prod / p := by
  have hpp := hpr p hp
  have h1 : p * (L.erase p).prod = L.prod := List.prod_erase hp
  have h2 : L.prod / p = (L.erase p).prod := by
    rw [← h1, Nat.mul_div_cancel_left _ hpp.pos]
  refine ⟨h2, ?_, ?_⟩
  · rw [h2]
    apply Nat.Coprime.symm
    rw [Nat.Prime.coprime_iff_not_dvd hpp]
    intro hd
    obtain ⟨a, ha, hpa⟩ := (Prime.dvd_prod_iff (Nat.prime_iff.mp hpp)).mp hd
    have hap : a.Prime := hpr a (List.mem_of_mem_erase ha)
    have : p = a := (Nat.prime_dvd_prime_iff_eq hpp hap).mp hpa
    subst this
    exact (List.Nodup.not_mem_erase hnd) ha
  · intro q hq hne
    rw [h2]
    exact List.dvd_prod ((List.mem_erase_of_ne hne).mpr hq)

/-- **`get_partial_multiplicative_identity(Q)`** of a well-formed multi-field is 1 modulo the primes of the field that
    divide `Q` and 0 modulo the others -/
theorem mfPid_spec (m : MF) (h : WF m) (Q : Nat) (hQ : Q ≠ 0) (q : Nat) (hq : q ∈ m.primes) :
    mfPid m Q % q = if Q % q = 0 then 1 else 0 := by
  have hqp := h.prime q hq
  have hqP : q ∣ m.P := by rw [h.prod]; exact List.dvd_prod hq
  have hPpos : 0 < m.P := by
    rw [h.prod]; exact List.prod_pos (fun p hp => (h.prime p hp).pos)
  unfold mfPid
  rw [if_neg hQ, h.partials]
  apply pid_spec m.primes h.nodup m.P Q _ q hq hqP hqp.two_le
  intro p hp
  have hpp := h.prime p hp
  obtain ⟨_, hcop, hdiv⟩ := prod_div m.primes h.nodup h.prime p hp
  rw [← h.prod] at hcop hdiv
  have hpP : p ∣ m.P := by rw [h.prod]; exact List.dvd_prod hp
  have hs := sqMul_spec m.P 64 (p - 1) (m.P / p % m.P) 1 (by have := h.small p hp; omega)
  rw [Nat.one_mul, Nat.pow_mod, Nat.mod_mod, ← Nat.pow_mod] at hs
  -- U p ≡ (P/p)^(p-1) modulo P, hence modulo q
  have hq' : sqMul m.P 64 (p - 1) (m.P / p % m.P) 1 % q = ((m.P / p) ^ (p - 1) % m.P) % q := by
    rw [← hs, Nat.mod_mod_of_dvd _ hqP]
  rw [hq']
  by_cases e : p = q
  · subst e
    rw [if_pos rfl, crt_idem_one hpp hpP hcop, Nat.mod_eq_of_lt hpp.one_lt]
  · rw [if_neg e]
    exact crt_idem_zero hpp hPpos hpP (hdiv q hq (fun h' => e h'.symm)) (by have := hpp.two_le; omega)

/-- **`get_partial_inverse(x, Q)`**, the combination step: given that the extended-Euclid loop returned an inverse `iv` of
    `x` modulo `T = Q / gcd(x, Q)`, the returned value is an inverse of `x` modulo every prime of the field dividing `T`
    and 0 modulo the other primes of the field (`mfPinv_partial`: the Euclid loop itself is compared, not proved) -/
theorem mfPinv_spec (m : MF) (h : WF m) (x Q : Nat) (hQ : Q ≠ 0) (hne : Nat.gcd x Q ≠ Q) (iv : Nat)
    (hiv : egcdInv x (Q / Nat.gcd x Q) = some iv) (hinv : iv * x % (Q / Nat.gcd x Q) = 1 % (Q / Nat.gcd x Q)) :
    ∃ v, mfPinv m x Q = some (v, Q / Nat.gcd x Q) ∧ ∀ q ∈ m.primes,
      (q ∣ Q / Nat.gcd x Q → v * x % q = 1) ∧ (¬ q ∣ Q / Nat.gcd x Q → v % q = 0) := by
  have hT : Q / Nat.gcd x Q ≠ 0 := by
    have hg : Nat.gcd x Q ∣ Q := Nat.gcd_dvd_right x Q
    have hgpos : 0 < Nat.gcd x Q := Nat.gcd_pos_of_pos_right x (Nat.pos_of_ne_zero hQ)
    intro h0
    have := Nat.div_mul_cancel hg
    rw [h0, Nat.zero_mul] at this
    exact hQ this.symm
  refine ⟨mfPid m (Q / Nat.gcd x Q) * (iv % m.P) % m.P, ?_, ?_⟩
  · simp only [mfPinv, hne, if_false, hiv]
  · intro q hq
    have hqp := h.prime q hq
    have hqP : q ∣ m.P := by rw [h.prod]; exact List.dvd_prod hq
    have hpid := mfPid_spec m h (Q / Nat.gcd x Q) hT q hq
    have hv : mfPid m (Q / Nat.gcd x Q) * (iv % m.P) % m.P ≡ mfPid m (Q / Nat.gcd x Q) * iv [MOD q] := by
      have h1 : mfPid m (Q / Nat.gcd x Q) * (iv % m.P) % m.P ≡ mfPid m (Q / Nat.gcd x Q) * (iv % m.P) [MOD q] :=
        (Nat.mod_modEq _ _).of_dvd hqP
      have h2 : iv % m.P ≡ iv [MOD q] := (Nat.mod_modEq _ _).of_dvd hqP
      exact h1.trans ((Nat.ModEq.refl _).mul h2)
    constructor
    · intro hd
      have hmod : (Q / Nat.gcd x Q) % q = 0 := Nat.mod_eq_zero_of_dvd hd
      rw [if_pos hmod] at hpid
      have hp1 : mfPid m (Q / Nat.gcd x Q) ≡ 1 [MOD q] := by
        unfold Nat.ModEq; rw [hpid, Nat.mod_eq_of_lt hqp.one_lt]
      have h3 : mfPid m (Q / Nat.gcd x Q) * (iv % m.P) % m.P * x ≡ 1 * iv * x [MOD q] :=
        (hv.trans (hp1.mul_right iv)).mul_right x
      have h4 : iv * x ≡ 1 [MOD q] := by
        have : iv * x ≡ 1 [MOD Q / Nat.gcd x Q] := hinv
        exact this.of_dvd hd
      have h5 : mfPid m (Q / Nat.gcd x Q) * (iv % m.P) % m.P * x ≡ 1 [MOD q] := by
        rw [Nat.one_mul] at h3; exact h3.trans h4
      unfold Nat.ModEq at h5
      rw [h5, Nat.mod_eq_of_lt hqp.one_lt]
    · intro hnd
      have hmod : ¬ (Q / Nat.gcd x Q) % q = 0 := fun e => hnd (Nat.dvd_of_mod_eq_zero e)
      rw [if_neg hmod] at hpid
      have hp0 : mfPid m (Q / Nat.gcd x Q) ≡ 0 [MOD q] := by unfold Nat.ModEq; rw [hpid, Nat.zero_mod]
      have := hv.trans (hp0.mul_right iv)
      unfold Nat.ModEq at this
      rw [this, Nat.zero_mul, Nat.zero_mod]

/-! ### `mfInit` builds a well-formed multi-field -/

theorem isPrime_iff (n : Nat) : isPrime n = true ↔ n.Prime := by
  unfold isPrime
  by_cases h1 : n ≤ 1
  · simp only [h1, if_true]
    constructor
    · intro h; exact absurd h (by simp)
    · intro h; have := h.two_le; omega
  · simp only [h1, if_false, List.all_eq_true, List.mem_range, Bool.or_eq_true, decide_eq_true_eq, bne_iff_ne, ne_eq]
    rw [Nat.prime_def_le_sqrt]
    constructor
    · intro h
      refine ⟨by omega, ?_⟩
      intro m hm hs hd
      have hmm : m * m ≤ n := Nat.le_sqrt.mp hs
      have hmn : m < n + 1 := by nlinarith
      rcases h m hmn with (h2 | h2) | h2
      · omega
      · omega
      · exact h2 (Nat.mod_eq_zero_of_dvd hd)
    · rintro ⟨_, h⟩ d _
      by_cases hd2 : d < 2
      · exact Or.inl (Or.inl hd2)
      · by_cases hdd : d * d > n
        · exact Or.inl (Or.inr hdd)
        · refine Or.inr ?_
          intro hmod
          exact h d (by omega) (Nat.le_sqrt.mpr (by omega)) (Nat.dvd_of_mod_eq_zero hmod)

theorem primesIn_spec (lo hi p : Nat) : p ∈ primesIn lo hi ↔ lo ≤ p ∧ p ≤ hi ∧ p.Prime := by
  unfold primesIn
  simp only [List.mem_filter, List.mem_range, Bool.and_eq_true, decide_eq_true_eq, isPrime_iff]
  constructor
  · rintro ⟨h1, h2, h3⟩; exact ⟨h2, by omega, h3⟩
  · rintro ⟨h1, h2, h3⟩; exact ⟨by omega, h1, h3⟩

theorem primesIn_nodup (lo hi : Nat) : (primesIn lo hi).Nodup := List.Nodup.filter _ List.nodup_range

/-- every multi-field accepted by `mfInit` (upper bound below 2⁶⁴) is well formed: the theorems above apply to it -/
theorem mfInit_wf (lo hi : Nat) (hhi : hi < 2 ^ 64) (m : MF) (h : mfInit lo hi = some m) : WF m := by
  unfold mfInit at h
  split at h
  · simp at h
  · split at h
    · simp at h
    · dsimp only at h
      split at h
      · simp at h
      · simp only [Option.some.injEq] at h
        subst h
        refine ⟨primesIn_nodup lo hi, fun p hp => ((primesIn_spec lo hi p).mp hp).2.2,
          fun p hp => by have := ((primesIn_spec lo hi p).mp hp).2.1; omega, ?_, rfl⟩
        exact (List.prod_eq_foldl).symm

/-- non-vacuity: the field with primes 2, 3, 5 -/
example : WF { primes := [2, 3, 5], P := 30, partials := [15, 10, 6] } :=
  ⟨by decide, by intro p hp; simp at hp; rcases hp with rfl | rfl | rfl <;> norm_num, by intro p hp; simp at hp; rcases hp with rfl | rfl | rfl <;> norm_num,
   by decide, by decide⟩

end MultiField
