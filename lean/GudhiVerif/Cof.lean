import GudhiVerif.Mfnd2
/-! Prototype (C01): the star of a simplex as computed by `rec_coface` (the route without label links) on the `Forest`
    model: it returns exactly the simplices of the tree that contain the given one — **including the simplex itself**
    (the early exit of `cofaces_simplex_range` that loses it for a top-dimensional simplex is defect D1 and is not part of
    this model).  Core Lean only. -/
namespace CofProto
open TrieProto TrieProto.Forest Mfnd2Proto
open List

/-- `rec_coface` with `star = true`; `q` = the vertices still to be matched, in increasing order
    (`vertices.back()` of the C++ is the head here) -/
def star : List Nat → Forest → List (List Nat)
  | _, Forest.nil => []
  | [], Forest.cons l _ k r => [l] :: (star [] k).map (l :: ·) ++ star [] r
  | v :: vs, Forest.cons l _ k r =>
    if l = v then (if vs.isEmpty then [[l]] else []) ++ (star vs k).map (l :: ·) ++ star (v :: vs) r
    else if v < l then []
    else (star (v :: vs) k).map (l :: ·) ++ star (v :: vs) r

theorem mem_of_incAbove {b : Nat} : ∀ {w : List Nat}, IncAbove (some b) w → ∀ x ∈ w, b < x := by
  intro w
  induction w generalizing b with
  | nil => intro _ x hx; cases hx
  | cons a w ih =>
    intro h x hx
    rcases List.mem_cons.mp hx with rfl | hx'
    · exact h.1
    · exact Nat.lt_trans h.1 (ih h.2 x hx')

/-- **the star is exactly the set of simplices containing the given one** -/
theorem mem_star (lb : Option Nat) (t : Forest) (hs : Sorted lb t) : ∀ (q w : List Nat),
    w ∈ star q t ↔ w ∈ walk t ∧ q <+ w := by
  induction t generalizing lb with
  | nil => intro q w; simp [star, walk]
  | cons l f k r ihk ihr =>
    obtain ⟨h1, h2, h3⟩ := hs
    have hk := walk_incAbove (some l) k h2
    have hr := walk_incAbove (some l) r h3
    intro q w
    cases q with
    | nil =>
      simp only [star, walk, List.mem_append, List.mem_cons, List.mem_map, List.nil_sublist, and_true]
      constructor
      · rintro ((rfl | ⟨s, hs', rfl⟩) | h)
        · exact Or.inr (Or.inl rfl)
        · exact Or.inr (Or.inr ⟨s, ((ihk (some l) h2 [] s).mp hs').1, rfl⟩)
        · exact Or.inl ((ihr (some l) h3 [] w).mp h).1
      · rintro (h | rfl | ⟨s, hs', rfl⟩)
        · exact Or.inr ((ihr (some l) h3 [] w).mpr ⟨h, List.nil_sublist _⟩)
        · exact Or.inl (Or.inl rfl)
        · exact Or.inl (Or.inr ⟨s, (ihk (some l) h2 [] s).mpr ⟨hs', List.nil_sublist _⟩, rfl⟩)
    | cons v vs =>
      simp only [star, walk]
      by_cases hlv : l = v
      · subst hlv
        simp only [if_true, List.mem_append, List.mem_cons, List.mem_map]
        constructor
        · rintro ((h | ⟨s, hs', rfl⟩) | h)
          · by_cases he : vs.isEmpty = true
            · simp only [he, if_true, List.mem_singleton] at h
              subst h
              have : vs = [] := List.isEmpty_iff.mp he
              subst this
              exact ⟨Or.inr (Or.inl rfl), List.Sublist.refl _⟩
            · simp [he] at h
          · obtain ⟨hw, hsub⟩ := (ihk (some l) h2 vs s).mp hs'
            exact ⟨Or.inr (Or.inr ⟨s, hw, rfl⟩), List.cons_sublist_cons.mpr hsub⟩
          · obtain ⟨hw, hsub⟩ := (ihr (some l) h3 (l :: vs) w).mp h
            exact ⟨Or.inl hw, hsub⟩
        · rintro ⟨hw | rfl | ⟨s, hs', rfl⟩, hsub⟩
          · exact Or.inr ((ihr (some l) h3 (l :: vs) w).mpr ⟨hw, hsub⟩)
          · -- l :: vs <+ [l]  forces vs = []
            have : vs = [] := by
              have := List.cons_sublist_cons.mp hsub
              exact List.sublist_nil.mp this
            subst this
            exact Or.inl (Or.inl (by simp))
          · exact Or.inl (Or.inr ⟨s, (ihk (some l) h2 vs s).mpr ⟨hs', List.cons_sublist_cons.mp hsub⟩, rfl⟩)
      · simp only [hlv, if_false]
        by_cases hvl : v < l
        · -- every word of this sibling list only has vertices ≥ l > v
          simp only [hvl, if_true, List.not_mem_nil, false_iff]
          rintro ⟨hw, hsub⟩
          have hvw : v ∈ w := hsub.subset List.mem_cons_self
          have hall : ∀ x ∈ w, l ≤ x := by
            simp only [List.mem_append, List.mem_cons, List.mem_map] at hw
            rcases hw with hw | rfl | ⟨s, hs', rfl⟩
            · intro x hx; exact Nat.le_of_lt (mem_of_incAbove (hr w hw).1 x hx)
            · intro x hx; simp at hx; omega
            · intro x hx
              rcases List.mem_cons.mp hx with rfl | hx'
              · exact Nat.le_refl _
              · exact Nat.le_of_lt (mem_of_incAbove (hk s hs').1 x hx')
          have := hall v hvw
          omega
        · simp only [hvl, if_false, List.mem_append, List.mem_cons, List.mem_map]
          have hne : ¬ (v = l) := fun h => hlv h.symm
          constructor
          · rintro (⟨s, hs', rfl⟩ | h)
            · obtain ⟨hw, hsub⟩ := (ihk (some l) h2 (v :: vs) s).mp hs'
              exact ⟨Or.inr (Or.inr ⟨s, hw, rfl⟩), hsub.cons l⟩
            · obtain ⟨hw, hsub⟩ := (ihr (some l) h3 (v :: vs) w).mp h
              exact ⟨Or.inl hw, hsub⟩
          · rintro ⟨hw | rfl | ⟨s, hs', rfl⟩, hsub⟩
            · exact Or.inr ((ihr (some l) h3 (v :: vs) w).mpr ⟨hw, hsub⟩)
            · exfalso
              rcases List.sublist_cons_iff.mp hsub with h | ⟨r', he, _⟩
              · exact absurd (List.sublist_nil.mp h) (by simp)
              · simp at he; exact hne he.1
            · rcases List.sublist_cons_iff.mp hsub with h | ⟨r', he, _⟩
              · exact Or.inl ⟨s, (ihk (some l) h2 (v :: vs) s).mpr ⟨hs', h⟩, rfl⟩
              · simp at he; exact absurd he.1 hne

/-- in particular the star of a simplex of the tree contains the simplex itself -/
theorem self_mem_star (t : Forest) (hs : Sorted none t) (w : List Nat) (hw : w ∈ walk t) : w ∈ star w t :=
  (mem_star none t hs w w).mpr ⟨hw, List.Sublist.refl _⟩

/-! ### cofaces of a given codimension (`star = false`) -/

/-- `rec_coface` with `star = false`: `nb` = number of vertices requested, `cur` = number of vertices of the simplices of
    the current sibling list (`curr_nbVertices`) -/
def cofK (nb : Nat) : Nat → List Nat → Forest → List (List Nat)
  | _, _, Forest.nil => []
  | cur, [], Forest.cons l _ k r =>
    if nb < cur then [] else
      (if cur = nb then [[l]] else (cofK nb (cur + 1) [] k).map (l :: ·)) ++ cofK nb cur [] r
  | cur, v :: vs, Forest.cons l _ k r =>
    if nb < cur then [] else
      if l = v then
        (if vs.isEmpty ∧ cur = nb then [[l]] else (cofK nb (cur + 1) vs k).map (l :: ·)) ++ cofK nb cur (v :: vs) r
      else if v < l then []
      else (cofK nb (cur + 1) (v :: vs) k).map (l :: ·) ++ cofK nb cur (v :: vs) r

/-- **cofaces of codimension k are exactly the simplices with k more vertices that contain the given one** -/
theorem mem_cofK (nb : Nat) (lb : Option Nat) (t : Forest) (hs : Sorted lb t) : ∀ (cur : Nat) (q w : List Nat),
    w ∈ cofK nb cur q t ↔ w ∈ walk t ∧ q <+ w ∧ cur + w.length = nb + 1 := by
  induction t generalizing lb with
  | nil => intro cur q w; simp [cofK, walk]
  | cons l f k r ihk ihr =>
    obtain ⟨h1, h2, h3⟩ := hs
    have hk := walk_incAbove (some l) k h2
    have hr := walk_incAbove (some l) r h3
    have hwalk : ∀ w, w ∈ walk (Forest.cons l f k r) ↔ (w ∈ walk r ∨ w = [l] ∨ ∃ s ∈ walk k, w = l :: s) := by
      intro w; simp only [walk, List.mem_append, List.mem_cons, List.mem_map]
      constructor
      · rintro (h | rfl | ⟨s, hs', rfl⟩)
        · exact Or.inl h
        · exact Or.inr (Or.inl rfl)
        · exact Or.inr (Or.inr ⟨s, hs', rfl⟩)
      · rintro (h | rfl | ⟨s, hs', rfl⟩)
        · exact Or.inl h
        · exact Or.inr (Or.inl rfl)
        · exact Or.inr (Or.inr ⟨s, hs', rfl⟩)
    intro cur q w
    rw [hwalk]
    have hpos : ∀ s ∈ walk k, 0 < s.length := by
      intro s hs'; have := (hk s hs').2; cases s with
      | nil => exact absurd rfl this
      | cons _ _ => simp
    by_cases hguard : nb < cur
    · -- nothing can have the requested size any more
      have hposr : ∀ s ∈ walk r, 0 < s.length := by
        intro s hs'; have := (hr s hs').2; cases s with
        | nil => exact absurd rfl this
        | cons _ _ => simp
      have : w ∉ cofK nb cur q (Forest.cons l f k r) := by
        cases q <;> simp [cofK, hguard]
      simp only [this, false_iff]
      rintro ⟨hw | rfl | ⟨s, hs', rfl⟩, _, hlen⟩
      · have := hposr w hw; omega
      · simp at hlen; omega
      · simp at hlen; omega
    · cases q with
      | nil =>
        simp only [cofK, hguard, if_false, List.mem_append, List.nil_sublist, true_and]
        rw [ihr (some l) h3 cur [] w]
        by_cases hcn : cur = nb
        · subst hcn
          simp only [if_true, List.mem_singleton]
          constructor
          · rintro (rfl | ⟨hw, _, hlen⟩)
            · exact ⟨Or.inr (Or.inl rfl), by simp⟩
            · exact ⟨Or.inl hw, hlen⟩
          · rintro ⟨hw | rfl | ⟨s, hs', rfl⟩, hlen⟩
            · exact Or.inr ⟨hw, List.nil_sublist _, hlen⟩
            · exact Or.inl rfl
            · have := hpos s hs'; simp only [List.length_cons] at hlen; omega
        · simp only [hcn, if_false, List.mem_map]
          constructor
          · rintro (⟨s, hs', rfl⟩ | ⟨hw, _, hlen⟩)
            · obtain ⟨hw, _, hlen⟩ := (ihk (some l) h2 (cur + 1) [] s).mp hs'
              exact ⟨Or.inr (Or.inr ⟨s, hw, rfl⟩), by simp; omega⟩
            · exact ⟨Or.inl hw, hlen⟩
          · rintro ⟨hw | rfl | ⟨s, hs', rfl⟩, hlen⟩
            · exact Or.inr ⟨hw, List.nil_sublist _, hlen⟩
            · simp at hlen; omega
            · exact Or.inl ⟨s, (ihk (some l) h2 (cur + 1) [] s).mpr ⟨hs', List.nil_sublist _, by simp at hlen; omega⟩, rfl⟩
      | cons v vs =>
        simp only [cofK, hguard, if_false]
        by_cases hlv : l = v
        · subst hlv
          simp only [if_true, List.mem_append]
          rw [ihr (some l) h3 cur (l :: vs) w]
          by_cases hadd : vs.isEmpty = true ∧ cur = nb
          · obtain ⟨he, hcn⟩ := hadd
            have hvs : vs = [] := List.isEmpty_iff.mp he
            subst hvs; subst hcn
            simp only [List.isEmpty_nil, and_self, if_true, List.mem_singleton]
            constructor
            · rintro (rfl | ⟨hw, hsub, hlen⟩)
              · exact ⟨Or.inr (Or.inl rfl), List.Sublist.refl _, by simp⟩
              · exact ⟨Or.inl hw, hsub, hlen⟩
            · rintro ⟨hw | rfl | ⟨s, hs', rfl⟩, hsub, hlen⟩
              · exact Or.inr ⟨hw, hsub, hlen⟩
              · exact Or.inl rfl
              · have := hpos s hs'; simp only [List.length_cons] at hlen; omega
          · have hadd' : ¬ (vs.isEmpty = true ∧ cur = nb) := hadd
            simp only [hadd', if_false, List.mem_map]
            constructor
            · rintro (⟨s, hs', rfl⟩ | ⟨hw, hsub, hlen⟩)
              · obtain ⟨hw, hsub, hlen⟩ := (ihk (some l) h2 (cur + 1) vs s).mp hs'
                exact ⟨Or.inr (Or.inr ⟨s, hw, rfl⟩), List.cons_sublist_cons.mpr hsub, by simp; omega⟩
              · exact ⟨Or.inl hw, hsub, hlen⟩
            · rintro ⟨hw | rfl | ⟨s, hs', rfl⟩, hsub, hlen⟩
              · exact Or.inr ⟨hw, hsub, hlen⟩
              · exfalso
                have hvs : vs = [] := List.sublist_nil.mp (List.cons_sublist_cons.mp hsub)
                apply hadd
                subst hvs
                exact ⟨rfl, by simp at hlen; omega⟩
              · exact Or.inl ⟨s, (ihk (some l) h2 (cur + 1) vs s).mpr
                  ⟨hs', List.cons_sublist_cons.mp hsub, by simp at hlen; omega⟩, rfl⟩
        · simp only [hlv, if_false]
          by_cases hvl : v < l
          · simp only [hvl, if_true, List.not_mem_nil, false_iff]
            rintro ⟨hw, hsub, _⟩
            have hvw : v ∈ w := hsub.subset List.mem_cons_self
            have hall : ∀ x ∈ w, l ≤ x := by
              rcases hw with hw | rfl | ⟨s, hs', rfl⟩
              · intro x hx; exact Nat.le_of_lt (mem_of_incAbove (hr w hw).1 x hx)
              · intro x hx; simp at hx; omega
              · intro x hx
                rcases List.mem_cons.mp hx with rfl | hx'
                · exact Nat.le_refl _
                · exact Nat.le_of_lt (mem_of_incAbove (hk s hs').1 x hx')
            have := hall v hvw
            omega
          · simp only [hvl, if_false, List.mem_append, List.mem_map]
            rw [ihr (some l) h3 cur (v :: vs) w]
            have hne : ¬ (v = l) := fun h => hlv h.symm
            constructor
            · rintro (⟨s, hs', rfl⟩ | ⟨hw, hsub, hlen⟩)
              · obtain ⟨hw, hsub, hlen⟩ := (ihk (some l) h2 (cur + 1) (v :: vs) s).mp hs'
                exact ⟨Or.inr (Or.inr ⟨s, hw, rfl⟩), hsub.cons l, by simp; omega⟩
              · exact ⟨Or.inl hw, hsub, hlen⟩
            · rintro ⟨hw | rfl | ⟨s, hs', rfl⟩, hsub, hlen⟩
              · exact Or.inr ⟨hw, hsub, hlen⟩
              · exfalso
                rcases List.sublist_cons_iff.mp hsub with h | ⟨r', he, _⟩
                · exact absurd (List.sublist_nil.mp h) (by simp)
                · simp at he; exact hne he.1
              · rcases List.sublist_cons_iff.mp hsub with h | ⟨r', he, _⟩
                · exact Or.inl ⟨s, (ihk (some l) h2 (cur + 1) (v :: vs) s).mpr ⟨hs', h, by simp at hlen; omega⟩, rfl⟩
                · simp at he; exact absurd he.1 hne

#eval star [1, 2] (cons 0 0 (cons 1 0 (cons 2 0 nil nil) (cons 2 0 nil nil)) (cons 1 0 (cons 2 0 nil nil) (cons 2 0 nil nil)))
#eval cofK 3 1 [2] (cons 0 0 (cons 1 0 (cons 2 0 nil nil) (cons 2 0 nil nil)) (cons 1 0 (cons 2 0 nil nil) (cons 2 0 nil nil)))
#print axioms mem_star
#print axioms mem_cofK
end CofProto
