import GudhiVerif.RepCycle
import Mathlib.LinearAlgebra.Matrix.NonsingularInverse

/-! Prototype (C05/C07 chain flavour): in a compatible basis `C` (upper triangular, non-zero diagonal) whose paired
    columns satisfy `∂ C_h = C_{pair h}` and whose other columns are cycles, the leading cell of any non-zero cycle `z`
    is never the leading cell of an `H` column.  This is what makes `Chain_matrix::_reduce_boundary` correct: the
    column it picks by pivot is in `F` or `G`, never in `H`. -/
open Matrix

variable {n : ℕ} {F : Type*} [Field F]

theorem cycle_pivot_not_in_H (D C : Matrix (Fin n) (Fin n) F)
    (hU : C.BlockTriangular id) (hd : ∀ i, C i i ≠ 0)
    (isH : Fin n → Prop) (pair : Fin n → Fin n)
    (hpair : ∀ h, isH h → D *ᵥ (colv C h) = colv C (pair h))
    (hinj : ∀ h h', isH h → isH h' → pair h = pair h' → h = h')
    (hcyc : ∀ j, ¬ isH j → D *ᵥ (colv C j) = 0)
    (α : Fin n → F) (hz : D *ᵥ (C *ᵥ α) = 0) :
    ∀ h, isH h → α h = 0 := by
  classical
  -- D (C α) = Σ_j α_j D C_j = Σ_{h ∈ H} α_h C_{pair h} = C β
  let β : Fin n → F := fun g => ∑ h, if isH h ∧ pair h = g then α h else 0
  have hDC : D *ᵥ (C *ᵥ α) = C *ᵥ β := by
    have e1 : D *ᵥ (C *ᵥ α) = ∑ j, α j • (D *ᵥ (colv C j)) := by
      have : C *ᵥ α = ∑ j, α j • colv C j := by
        funext i
        simp [Matrix.mulVec, dotProduct, colv, Finset.sum_apply, mul_comm]
      rw [this, Matrix.mulVec_sum]
      simp [Matrix.mulVec_smul]
    have e2 : C *ᵥ β = ∑ g, β g • colv C g := by
      funext i
      simp [Matrix.mulVec, dotProduct, colv, Finset.sum_apply, mul_comm]
    rw [e1, e2]
    -- rewrite each term
    have e3 : ∀ j, α j • (D *ᵥ (colv C j)) = if isH j then α j • colv C (pair j) else 0 := by
      intro j
      by_cases hj : isH j
      · simp [hj, hpair j hj]
      · simp [hj, hcyc j hj]
    simp only [e3]
    -- regroup by partner
    simp only [β, Finset.sum_smul]
    rw [Finset.sum_comm]
    apply Finset.sum_congr rfl
    intro j _
    by_cases hj : isH j
    · simp only [hj, true_and, if_true]
      rw [Finset.sum_eq_single (pair j)]
      · simp
      · intro g _ hg; simp [Ne.symm hg]
      · intro h; exact absurd (Finset.mem_univ _) h
    · simp [hj]
  -- C is invertible, so β = 0
  have hdet : C.det ≠ 0 := upper_det_ne_zero hU hd
  have hβ : β = 0 := by
    have : C *ᵥ β = 0 := by rw [← hDC, hz]
    have hunit : IsUnit C.det := isUnit_iff_ne_zero.mpr hdet
    have := congrArg (C⁻¹ *ᵥ ·) this
    simpa [Matrix.mulVec_mulVec, Matrix.nonsing_inv_mul C hunit] using this
  intro h hh
  have := congrFun hβ (pair h)
  simp only [β, Pi.zero_apply] at this
  rw [Finset.sum_eq_single h] at this
  · simpa [hh] using this
  · intro h' _ hne
    by_cases hh' : isH h' ∧ pair h' = pair h
    · exact absurd (hinj h' h hh'.1 hh hh'.2) hne
    · simp [hh']
  · intro hc; exact absurd (Finset.mem_univ _) hc

#print axioms cycle_pivot_not_in_H
