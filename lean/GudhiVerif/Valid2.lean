import GudhiVerif.Mfnd3
import GudhiVerif.TrieSorted
/-! Prototype (C01): `Valid` (face-closed and monotone, stated structurally) is equivalent to its semantic form on the
    `find` function, and is preserved by `insert_simplex_and_subfaces`; together with `sorted_insF` and `insF_spec` this
    lets the refinement be iterated along a whole history of insertions.  Core Lean only. -/
namespace TrieProto
open Forest List Mfnd2Proto Mfnd3Proto

/-- semantic validity: every non-empty sub-word of a stored word is stored with a value not larger -/
def SV (F : List Nat → Option Int) : Prop :=
  ∀ w a, F w = some a → ∀ q, q <+ w → q ≠ [] → ∃ b, F q = some b ∧ b ≤ a

/-- stored words are increasing above the bound of the tree -/
theorem incAbove_of_find (lb : Option Nat) (t : Forest) (hs : Sorted lb t) (w : List Nat) (a : Int)
    (h : find t w = some a) : IncAbove lb w ∧ w ≠ [] := by
  have : (find t w).isSome = true := by rw [h]; rfl
  exact walk_incAbove lb t hs w ((mem_walk_iff lb t hs w).mpr this)

theorem sv_of_valid (lb : Option Nat) (t : Forest) (hv : Valid t) (hs : Sorted lb t) : SV (find t) := by
  intro w a hw q hq hne
  have hinc := (incAbove_of_find lb t hs w a hw).1
  exact valid_sublist t lb w q a hv hs hinc.weaken_none hw hq hne

/-- the converse: semantic validity of a sorted tree gives the structural predicate -/
theorem valid_of_sv (t : Forest) : ∀ lb, Sorted lb t → SV (find t) → Valid t := by
  induction t with
  | nil => intro _ _ _; trivial
  | cons l g k r ihk ihr =>
    intro lb hs hsv
    obtain ⟨h1, h2, h3⟩ := hs
    -- words of k and r, read in the whole tree
    have hfk : ∀ τ, τ ≠ [] → find (cons l g k r) (l :: τ) = find k τ := by
      intro τ hτ; rw [find_cons]; simp [hτ]
    have hfr : ∀ w, IncAbove (some l) w → w ≠ [] → find (cons l g k r) w = find r w := by
      intro w hw hne
      cases w with
      | nil => exact absurd rfl hne
      | cons a w' =>
        rw [find_cons]
        have : a ≠ l := by have := hw.1; omega
        simp [this]
    have svk : SV (find k) := by
      intro w a hw q hq hne
      have hwne : w ≠ [] := (incAbove_of_find (some l) k h2 w a hw).2
      have := hsv (l :: w) a (by rw [hfk w hwne]; exact hw) (l :: q) (List.cons_sublist_cons.mpr hq) (by simp)
      obtain ⟨b, hb, hle⟩ := this
      exact ⟨b, by rw [← hfk q hne]; exact hb, hle⟩
    have svr : SV (find r) := by
      intro w a hw q hq hne
      obtain ⟨hinc, hwne⟩ := incAbove_of_find (some l) r h3 w a hw
      have := hsv w a (by rw [hfr w hinc hwne]; exact hw) q hq hne
      obtain ⟨b, hb, hle⟩ := this
      exact ⟨b, by rw [← hfr q (hinc.sublist hq) hne]; exact hb, hle⟩
    refine ⟨ihk (some l) h2 svk, ihr (some l) h3 svr, ?_⟩
    intro τ a hτ
    obtain ⟨hinc, hτne⟩ := incAbove_of_find (some l) k h2 τ a hτ
    have hw : find (cons l g k r) (l :: τ) = some a := by rw [hfk τ hτne]; exact hτ
    constructor
    · obtain ⟨b, hb, hle⟩ := hsv (l :: τ) a hw [l] (by simp) (by simp)
      rw [find_cons] at hb
      simp at hb
      rw [hb]; exact hle
    · obtain ⟨b, hb, hle⟩ := hsv (l :: τ) a hw τ (List.sublist_cons_self l τ) hτne
      exact ⟨b, by rw [← hfr τ hinc hτne]; exact hb, hle⟩

theorem unify_le_left (f : Int) (o : Option Int) : unify f o ≤ f := by
  cases o with
  | none => exact Int.le_refl _
  | some g => rw [unify_some]; split <;> omega

theorem unify_mono (f g g' : Int) (h : g ≤ g') : unify f (some g) ≤ unify f (some g') := by
  rw [unify_some, unify_some]; split <;> split <;> omega

theorem unify_some_le (f g : Int) : unify f (some g) ≤ g := by
  rw [unify_some]; split <;> omega

/-- **`insert_simplex_and_subfaces` keeps the tree face-closed and monotone** -/
theorem valid_insF (t : Forest) (σ : List Nat) (f : Int) (lb : Option Nat)
    (hv : Valid t) (hs : Sorted lb t) (hσ : IncAbove lb σ) : Valid (insF t σ f).1 := by
  classical
  apply valid_of_sv _ lb (sorted_insF t σ f lb hs hσ)
  obtain ⟨s1, s2, _⟩ := insF_spec t σ f lb hv hs hσ
  have hsv := sv_of_valid lb t hv hs
  intro w a hw q hq hne
  by_cases hwσ : w <+ σ
  · have hwne : w ≠ [] := by
      intro e; subst e
      rw [find_nil_word] at hw; cases hw
    have hqσ : q <+ σ := hq.trans hwσ
    rw [s1 w hwne hwσ] at hw
    refine ⟨unify f (find t q), s1 q hne hqσ, ?_⟩
    have ha : a = unify f (find t w) := by simpa using hw.symm
    rw [ha]
    cases hfw : find t w with
    | none => rw [unify_none]; exact unify_le_left f _
    | some gw =>
      obtain ⟨b, hb, hle⟩ := hsv w gw hfw q hq hne
      rw [hb]; exact unify_mono f b gw hle
  · rw [s2 w hwσ] at hw
    obtain ⟨b, hb, hle⟩ := hsv w a hw q hq hne
    by_cases hqσ : q <+ σ
    · refine ⟨unify f (find t q), s1 q hne hqσ, ?_⟩
      rw [hb]; exact Int.le_trans (unify_some_le f b) hle
    · exact ⟨b, by rw [s2 q hqσ]; exact hb, hle⟩

open Classical in
/-- the abstract complex after `insert_simplex_and_subfaces σ f`: the non-empty sub-words of σ get `min(old, f)` -/
noncomputable def specIns (F : List Nat → Option Int) (op : List Nat × Int) : List Nat → Option Int :=
  fun q => if q ≠ [] ∧ q <+ op.1 then some (unify op.2 (F q)) else F q

/-- **any history of `insert_simplex_and_subfaces` refines the abstract complex** (and keeps the tree sorted,
    face-closed and monotone) -/
theorem run_insF : ∀ (ops : List (List Nat × Int)) (t : Forest), (∀ op ∈ ops, IncAbove none op.1) →
    Valid t → Sorted none t →
    Valid (ops.foldl (fun t op => (insF t op.1 op.2).1) t) ∧
    Sorted none (ops.foldl (fun t op => (insF t op.1 op.2).1) t) ∧
    find (ops.foldl (fun t op => (insF t op.1 op.2).1) t) = ops.foldl specIns (find t) := by
  intro ops
  induction ops with
  | nil => intro t _ hv hs; exact ⟨hv, hs, rfl⟩
  | cons op ops ih =>
    intro t hops hv hs
    have hσ := hops op List.mem_cons_self
    have hv' := valid_insF t op.1 op.2 none hv hs hσ
    have hs' := sorted_insF t op.1 op.2 none hs hσ
    obtain ⟨s1, s2, _⟩ := insF_spec t op.1 op.2 none hv hs hσ
    have hstep : find (insF t op.1 op.2).1 = specIns (find t) op := by
      funext q
      unfold specIns
      by_cases hq : q ≠ [] ∧ q <+ op.1
      · rw [if_pos hq]; exact s1 q hq.1 hq.2
      · rw [if_neg hq]
        by_cases hsub : q <+ op.1
        · have : q = [] := by
            by_cases hne : q = []
            · exact hne
            · exact absurd ⟨hne, hsub⟩ hq
          subst this
          rw [find_nil_word, find_nil_word]
        · exact s2 q hsub
    have := ih (insF t op.1 op.2).1 (fun o ho => hops o (List.mem_cons_of_mem _ ho)) hv' hs'
    simp only [List.foldl_cons]
    rw [← hstep]
    exact this

/-- `prune_above_filtration` keeps the tree face-closed and monotone -/
theorem valid_prune (t : Forest) (f : Int) (lb : Option Nat) (hv : Valid t) (hs : Sorted lb t) : Valid (prune t f) := by
  apply valid_of_sv _ lb (sorted_prune t f lb hs)
  have hsv := sv_of_valid lb t hv hs
  have hfind : ∀ q, find (prune t f) q = (match find t q with | some g => if g ≤ f then some g else none | none => none) :=
    fun q => by rw [find_prune t lb f q hs, survives_sublevel t f q hv]; cases find t q <;> rfl
  intro w a hw q hq hne
  rw [hfind w] at hw
  cases hfw : find t w with
  | none => rw [hfw] at hw; cases hw
  | some gw =>
    rw [hfw] at hw
    by_cases hle : gw ≤ f
    · simp only [hle, if_true, Option.some.injEq] at hw
      subst hw
      obtain ⟨b, hb, hba⟩ := hsv w gw hfw q hq hne
      refine ⟨b, ?_, hba⟩
      rw [hfind q, hb]
      have : b ≤ f := Int.le_trans hba hle
      simp [this]
    · simp [hle] at hw

/-- `prune_above_dimension` keeps the tree face-closed and monotone -/
theorem valid_pruneDim (t : Forest) (d : Nat) (lb : Option Nat) (hv : Valid t) (hs : Sorted lb t) :
    Valid (pruneDim t d) := by
  apply valid_of_sv _ lb (sorted_pruneDim t d lb hs)
  have hsv := sv_of_valid lb t hv hs
  intro w a hw q hq hne
  rw [find_pruneDim] at hw
  by_cases hlen : w.length ≤ d + 1
  · rw [if_pos hlen] at hw
    obtain ⟨b, hb, hba⟩ := hsv w a hw q hq hne
    refine ⟨b, ?_, hba⟩
    rw [find_pruneDim, if_pos (Nat.le_trans hq.length_le hlen)]; exact hb
  · rw [if_neg hlen] at hw; cases hw

/-- `remove_maximal_simplex` of a simplex without proper cofaces keeps the tree face-closed and monotone -/
theorem valid_removeLeaf (t : Forest) (w : List Nat) (lb : Option Nat) (hv : Valid t) (hs : Sorted lb t)
    (hleaf : kidsAt t w = some Forest.nil) (hmax : ∀ u a, find t u = some a → w <+ u → u = w) :
    Valid (removeLeaf t w) := by
  apply valid_of_sv _ lb (sorted_removeLeaf t w lb hs)
  have hsv := sv_of_valid lb t hv hs
  intro u a hu q hq hne
  rw [find_removeLeaf t w lb u hs hleaf] at hu
  by_cases huw : u = w
  · rw [if_pos huw] at hu; cases hu
  · rw [if_neg huw] at hu
    obtain ⟨b, hb, hba⟩ := hsv u a hu q hq hne
    refine ⟨b, ?_, hba⟩
    rw [find_removeLeaf t w lb q hs hleaf]
    have hqw : q ≠ w := by
      intro e; subst e
      exact huw (hmax u a hu hq)
    rw [if_neg hqw]; exact hb

#print axioms valid_of_sv
#print axioms valid_insF
#print axioms run_insF
#print axioms valid_prune
#print axioms valid_pruneDim
#print axioms valid_removeLeaf
end TrieProto
