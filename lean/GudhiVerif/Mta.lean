import GudhiVerif.ReduceP
/-! Prototype (C09): `_multiply_target_and_add_to_column` on the ordered column family: one merge pass in which entries
    present only in the target are scaled, entries present only in the source are inserted, common entries become
    `target·val + source` (dropped when zero); `val = 0` clears the target first.  Coefficient-wise specification.
    Core Lean only. -/
namespace MtaProto
open AxpyProto ReducePProto

/-- the remaining target entries are multiplied by `val` (last lambda of the C++) -/
def scale (p c : Nat) (a : Col) : Col := a.map fun e => (e.1, (e.2 * c) % p)

/-- the merge pass for `val ≠ 0` -/
def merge (p c : Nat) : Col → Col → Col
  | [], b => b
  | (r, x) :: a, [] => scale p c ((r, x) :: a)
  | (r, x) :: a, (s, y) :: b =>
    if r < s then (r, (x * c) % p) :: merge p c a ((s, y) :: b)
    else if s < r then (s, y) :: merge p c ((r, x) :: a) b
    else consNZ r ((x * c + y) % p) (merge p c a b)
termination_by a b => a.length + b.length
decreasing_by all_goals simp_wf <;> omega

/-- `multiply_target_and_add(val, source)` -/
def mta (p c : Nat) (a b : Col) : Col := if c = 0 then b else merge p c a b

theorem coeff_scale (p c : Nat) (a : Col) (i : Nat) : coeff (scale p c a) i = (coeff a i * c) % p := by
  induction a with
  | nil => simp [scale, coeff]
  | cons h t ih =>
    obtain ⟨r, x⟩ := h
    simp only [scale, List.map_cons, coeff] at ih ⊢
    split
    · rfl
    · exact ih

theorem coeff_mod_of_canon {p : Nat} (hp : 0 < p) {c : Col} (hc : Canon p c) (i : Nat) : coeff c i % p = coeff c i :=
  Nat.mod_eq_of_lt (coeff_lt hp hc i)

theorem sorted_scale (p c : Nat) (a : Col) (ha : Sorted a) : Sorted (scale p c a) := by
  induction a with
  | nil => trivial
  | cons h t ih =>
    obtain ⟨r, x⟩ := h
    cases t with
    | nil => trivial
    | cons h' t' =>
      obtain ⟨r', x'⟩ := h'
      exact ⟨ha.1, ih ha.2⟩

theorem coeff_merge (p c : Nat) (hp : 0 < p) (a b : Col) (ha : Sorted a) (hb : Sorted b) (hcb : Canon p b) (i : Nat) :
    coeff (merge p c a b) i = (coeff a i * c + coeff b i) % p := by
  induction a, b using merge.induct with
  | case1 b =>
    rw [merge]; simp only [coeff, Nat.zero_mul, Nat.zero_add]
    exact (coeff_mod_of_canon hp hcb i).symm
  | case2 r x a =>
    rw [merge, coeff_scale]; simp [coeff]
  | case3 r x a s y b hlt ih =>
    rw [merge]; simp only [hlt, if_true, coeff]
    have hcb' := hcb
    split
    · rename_i hri
      have hb0 : coeff ((s, y) :: b) i = 0 := coeff_of_lt hb (by omega)
      simp only [coeff] at hb0
      rw [hb0]; simp
    · exact ih ha.tail hb hcb
  | case4 r x a s y b hlt hgt ih =>
    rw [merge]; simp only [hlt, hgt, if_false, if_true, coeff]
    have hcb' : Canon p b := fun e he => hcb e (List.mem_cons_of_mem _ he)
    split
    · rename_i hsi
      have ha0 : coeff ((r, x) :: a) i = 0 := coeff_of_lt ha (by omega)
      simp only [coeff] at ha0
      rw [ha0]; simp
      exact (Nat.mod_eq_of_lt (hcb (s, y) List.mem_cons_self).2).symm
    · exact ih ha hb.tail hcb'
  | case5 r x a s y b hlt hgt ih =>
    have hrs : r = s := by omega
    subst hrs
    have hcb' : Canon p b := fun e he => hcb e (List.mem_cons_of_mem _ he)
    rw [merge]; simp only [Nat.lt_irrefl, if_false]
    rw [coeff_consNZ]
    · rw [ih ha.tail hb.tail hcb']
      simp only [coeff]
      split
      · rfl
      · rfl
    · intro hri
      rw [ih ha.tail hb.tail hcb', coeff_tail_of_le ha (by omega), coeff_tail_of_le hb (by omega)]; simp

/-- **`multiply_target_and_add`: every coefficient becomes `val·target + source` (mod p)** -/
theorem coeff_mta (p c : Nat) (hp : 0 < p) (a b : Col) (ha : Sorted a) (hb : Sorted b) (hcb : Canon p b) (i : Nat) :
    coeff (mta p c a b) i = (c * coeff a i + coeff b i) % p := by
  unfold mta
  split
  · rename_i hc; subst hc
    simp only [Nat.zero_mul, Nat.zero_add]
    exact (coeff_mod_of_canon hp hcb i).symm
  · rw [coeff_merge p c hp a b ha hb hcb i, Nat.mul_comm]

#print axioms coeff_merge
#print axioms coeff_mta
end MtaProto
