import GudhiVerif.CubValue
/-! # C13 — periodic directions and the periodic class: ∂∂ = 0 for every shape and both classes

A bitmap with periodic directions is the quotient of the bitmap with the same sizes and no periodic direction: the last
vertex layer of a periodic direction is identified with the first.  `psi` is that quotient map on flat positions (digit-wise
reduction modulo the periodic radix).  Proved: the boundary list of the executable model commutes with `psi`
(`boundary_psi`, for both pair orientations, i.e. both C++ classes), every position of the periodic bitmap is a `psi`-image,
the two orientations differ by swapping each pair, and hence `flat_bd_bd_all`: ∂∂ = 0 on flat positions for every shape with
positive radices, every subset of periodic directions, both classes. -/
namespace CubBridge
open CubModel CubicalProto

/-! ### the loop body of `Shape.boundary` -/

def stepGen (sh : Shape) (periodicClass : Bool) (pos : Nat) : List Nat × Nat → Nat → List Nat × Nat :=
  fun (acc : List Nat × Nat) (i : Nat) =>
    let d := sh.digit pos i
    if d % 2 = 1 then
      let m := sh.mult i
      let lo := pos - m
      let hi := if sh.isPer i && d == 2 * sh.size i - 1 then pos - (2 * sh.size i - 1) * m else pos + m
      let odd := acc.2 % 2 = 1
      let pair := if periodicClass then (if odd then [lo, hi] else [hi, lo]) else (if odd then [hi, lo] else [lo, hi])
      (acc.1 ++ pair, acc.2 + 1)
    else acc

theorem boundary_def (sh : Shape) (b : Bool) (pos : Nat) :
    sh.boundary b pos = (sh.dirsDown.foldl (stepGen sh b pos) ([], 0)).1 := rfl

def pairOf (b : Bool) (cnt lo hi : Nat) : List Nat :=
  if b then (if cnt % 2 = 1 then [lo, hi] else [hi, lo]) else (if cnt % 2 = 1 then [hi, lo] else [lo, hi])

def hiOf (sh : Shape) (pos i : Nat) : Nat :=
  if sh.isPer i && sh.digit pos i == 2 * sh.size i - 1 then pos - (2 * sh.size i - 1) * sh.mult i else pos + sh.mult i

theorem stepGen_eq (sh : Shape) (b : Bool) (pos : Nat) (acc : List Nat) (cnt i : Nat) :
    stepGen sh b pos (acc, cnt) i =
      if sh.digit pos i % 2 = 1 then (acc ++ pairOf b cnt (pos - sh.mult i) (hiOf sh pos i), cnt + 1) else (acc, cnt) := by
  simp only [stepGen, pairOf, hiOf]

/-! ### the quotient map -/

def plainOf (sh : Shape) : Shape := { sizes := sh.sizes, per := [] }

theorem plainOf_isPer (sh : Shape) (i : Nat) : (plainOf sh).isPer i = false := by simp [plainOf, Shape.isPer]
theorem plainOf_dims (sh : Shape) : (plainOf sh).dims = sh.dims := rfl
theorem plainOf_size (sh : Shape) (i : Nat) : (plainOf sh).size i = sh.size i := rfl
theorem plainOf_dirsDown (sh : Shape) : (plainOf sh).dirsDown = sh.dirsDown := rfl
theorem plainOf_radix (sh : Shape) (i : Nat) : (plainOf sh).radix i = 2 * sh.size i + 1 := by
  rw [radix_plain _ (plainOf_isPer sh)]; rfl

theorem radix_cases (sh : Shape) (i : Nat) :
    (sh.isPer i = true ∧ sh.radix i = 2 * sh.size i) ∨ (sh.isPer i = false ∧ sh.radix i = 2 * sh.size i + 1) := by
  unfold Shape.radix
  cases h : sh.isPer i <;> simp

def psi (sh : Shape) (x : Nat) : Nat := S sh (fun j => (plainOf sh).digit x j % sh.radix j) sh.dims

theorem S_congr (sh : Shape) (f g : Nat → Nat) : ∀ n, (∀ j, j < n → f j = g j) → S sh f n = S sh g n := by
  intro n
  induction n with
  | zero => intro _; rfl
  | succ n ih =>
    intro h
    rw [S_succ, S_succ, ih (fun j hj => h j (by omega)), h n (by omega)]

theorem psi_lt (sh : Shape) (hr : ∀ i, i < sh.dims → 0 < sh.radix i) (x : Nat) : psi sh x < sh.total := by
  rw [total_eq]
  exact S_lt sh _ (fun j hj => Nat.mod_lt _ (hr j hj)) _ (Nat.le_refl _)

theorem psi_digit (sh : Shape) (hr : ∀ i, i < sh.dims → 0 < sh.radix i) (x i : Nat) (hi : i < sh.dims) :
    sh.digit (psi sh x) i = (plainOf sh).digit x i % sh.radix i :=
  digit_S sh _ (fun j hj => Nat.mod_lt _ (hr j hj)) i hi sh.dims hi (Nat.le_refl _)

theorem plain_radix_pos (sh : Shape) : ∀ i, i < (plainOf sh).dims → 0 < (plainOf sh).radix i := by
  intro i _; rw [plainOf_radix]; omega

/-- every position of the bitmap is the image of the position with the same digits in the bitmap without periodic directions -/
theorem psi_surj (sh : Shape) (hr : ∀ i, i < sh.dims → 0 < sh.radix i) (pos : Nat) (hpos : pos < sh.total) :
    ∃ x, x < (plainOf sh).total ∧ psi sh x = pos := by
  have hf : ∀ j, j < (plainOf sh).dims → sh.digit pos j < (plainOf sh).radix j := by
    intro j hj
    rw [plainOf_radix]
    have := Nat.mod_lt (pos / sh.mult j) (hr j hj)
    rcases radix_cases sh j with ⟨_, h⟩ | ⟨_, h⟩ <;> simp only [Shape.digit] at * <;> omega
  refine ⟨S (plainOf sh) (sh.digit pos) (plainOf sh).dims, ?_, ?_⟩
  · rw [total_eq]; exact S_lt _ _ hf _ (Nat.le_refl _)
  · unfold psi
    have hd : ∀ j, j < sh.dims →
        (plainOf sh).digit (S (plainOf sh) (sh.digit pos) (plainOf sh).dims) j % sh.radix j = sh.digit pos j := by
      intro j hj
      have e : (plainOf sh).digit (S (plainOf sh) (sh.digit pos) (plainOf sh).dims) j = sh.digit pos j :=
        digit_S (plainOf sh) _ hf j hj _ hj (Nat.le_refl _)
      rw [e]
      simp only [Shape.digit, Nat.mod_mod]
    rw [S_congr sh _ (sh.digit pos) sh.dims hd]
    have := sum_digits sh pos sh.dims (Nat.le_refl _)
    rw [← total_eq, Nat.mod_eq_of_lt hpos] at this
    exact this

/-- the image of a position with one digit changed -/
theorem psi_change (sh : Shape) (x : Nat) (i : Nat) (hi : i < sh.dims) (v : Nat) (y : Nat)
    (hdig : ∀ j, j < sh.dims → (plainOf sh).digit y j = upd ((plainOf sh).digit x) i v j) :
    psi sh y + ((plainOf sh).digit x i % sh.radix i) * sh.mult i = psi sh x + (v % sh.radix i) * sh.mult i := by
  unfold psi
  have h1 : S sh (fun j => (plainOf sh).digit y j % sh.radix j) sh.dims =
      S sh (upd (fun j => (plainOf sh).digit x j % sh.radix j) i (v % sh.radix i)) sh.dims := by
    apply S_congr
    intro j hj
    rw [hdig j hj]
    by_cases e : j = i
    · subst e; simp [upd]
    · simp [upd, e]
  rw [h1]
  have := S_upd sh (fun j => (plainOf sh).digit x j % sh.radix j) i (v % sh.radix i) sh.dims
  simp only [hi, if_true] at this
  exact this

theorem pairOf_map (e : Nat → Nat) (b : Bool) (cnt lo hi : Nat) :
    (pairOf b cnt lo hi).map e = pairOf b cnt (e lo) (e hi) := by
  unfold pairOf; cases b <;> simp <;> split <;> simp

/-- one direction of the loop commutes with the quotient map -/
theorem step_comm (sh : Shape) (hr : ∀ i, i < sh.dims → 0 < sh.radix i) (b : Bool) (x : Nat)
    (hx : x < (plainOf sh).total) (i : Nat) (hi : i < sh.dims) (acc : List Nat) (cnt : Nat) :
    stepGen sh b (psi sh x) (acc.map (psi sh), cnt) i =
      ((stepGen (plainOf sh) b x (acc, cnt) i).1.map (psi sh), (stepGen (plainOf sh) b x (acc, cnt) i).2) := by
  rw [stepGen_eq, stepGen_eq, psi_digit sh hr x i hi]
  have hd' : (plainOf sh).digit x i < 2 * sh.size i + 1 := by
    rw [← plainOf_radix]; exact Nat.mod_lt _ (plain_radix_pos sh i hi)
  have hrp := hr i hi
  by_cases hodd : (plainOf sh).digit x i % 2 = 1
  · have hlt : (plainOf sh).digit x i < sh.radix i := by rcases radix_cases sh i with ⟨_, h⟩ | ⟨_, h⟩ <;> omega
    have hdr : (plainOf sh).digit x i % sh.radix i = (plainOf sh).digit x i := Nat.mod_eq_of_lt hlt
    obtain ⟨d0, hd0⟩ : ∃ d0, (plainOf sh).digit x i = d0 + 1 := ⟨(plainOf sh).digit x i - 1, by omega⟩
    -- the lower face
    obtain ⟨y, hy, _, hyd⟩ := digit_change (plainOf sh) (plain_radix_pos sh) x hx i hi ((plainOf sh).digit x i - 1)
      (by rw [plainOf_radix]; omega)
    have hylo : y = x - (plainOf sh).mult i := by
      rw [hd0] at hy; simp only [Nat.add_sub_cancel, Nat.add_mul, Nat.one_mul] at hy; omega
    have hlo : psi sh (x - (plainOf sh).mult i) = psi sh x - sh.mult i := by
      have h := psi_change sh x i hi ((plainOf sh).digit x i - 1) y hyd
      rw [hdr, Nat.mod_eq_of_lt (by omega : (plainOf sh).digit x i - 1 < sh.radix i), hd0] at h
      simp only [Nat.add_sub_cancel, Nat.add_mul, Nat.one_mul] at h
      rw [← hylo]; omega
    -- the upper face
    obtain ⟨z, hz, _, hzd⟩ := digit_change (plainOf sh) (plain_radix_pos sh) x hx i hi ((plainOf sh).digit x i + 1)
      (by rw [plainOf_radix]; omega)
    have hzhi : z = x + (plainOf sh).mult i := by
      simp only [Nat.add_mul, Nat.one_mul] at hz; omega
    have hpl : hiOf (plainOf sh) x i = x + (plainOf sh).mult i := by simp [hiOf, plainOf_isPer]
    have hhi : psi sh (x + (plainOf sh).mult i) = hiOf sh (psi sh x) i := by
      have h := psi_change sh x i hi ((plainOf sh).digit x i + 1) z hzd
      rw [hdr] at h
      unfold hiOf
      rw [psi_digit sh hr x i hi, hdr, ← hzhi]
      rcases radix_cases sh i with ⟨hp, hrad⟩ | ⟨hp, hrad⟩
      · by_cases hl : (plainOf sh).digit x i = 2 * sh.size i - 1
        · have hm : ((plainOf sh).digit x i + 1) % sh.radix i = 0 := by
            rw [hrad, hl]
            have : 2 * sh.size i - 1 + 1 = 2 * sh.size i := by omega
            rw [this, Nat.mod_self]
          rw [hm, Nat.zero_mul, Nat.add_zero] at h
          simp only [hp, hl, Bool.true_and, beq_self_eq_true, if_true]
          rw [← hl]; omega
        · have hm : ((plainOf sh).digit x i + 1) % sh.radix i = (plainOf sh).digit x i + 1 :=
            Nat.mod_eq_of_lt (by omega)
          rw [hm] at h
          simp only [Nat.add_mul, Nat.one_mul] at h
          have hne : ((plainOf sh).digit x i == 2 * sh.size i - 1) = false := by simpa using hl
          simp only [hp, hne, Bool.and_false, Bool.false_eq_true, if_false]
          omega
      · have hm : ((plainOf sh).digit x i + 1) % sh.radix i = (plainOf sh).digit x i + 1 :=
          Nat.mod_eq_of_lt (by omega)
        rw [hm] at h
        simp only [Nat.add_mul, Nat.one_mul] at h
        simp only [hp, Bool.false_and, Bool.false_eq_true, if_false]
        omega
    rw [hdr]
    simp only [hodd, if_true, List.map_append, pairOf_map, hlo, hpl, hhi]
  · have hev : ¬ ((plainOf sh).digit x i % sh.radix i) % 2 = 1 := by
      rcases radix_cases sh i with ⟨_, hrad⟩ | ⟨_, hrad⟩
      · rw [hrad]
        by_cases hl : (plainOf sh).digit x i = 2 * sh.size i
        · rw [hl, Nat.mod_self]; omega
        · rw [Nat.mod_eq_of_lt (show (plainOf sh).digit x i < 2 * sh.size i by omega)]; exact hodd
      · rw [hrad, Nat.mod_eq_of_lt hd']; exact hodd
    simp only [hodd, hev, if_false]

theorem fold_comm (sh : Shape) (hr : ∀ i, i < sh.dims → 0 < sh.radix i) (b : Bool) (x : Nat)
    (hx : x < (plainOf sh).total) : ∀ (ds : List Nat), (∀ i ∈ ds, i < sh.dims) → ∀ (acc : List Nat) (cnt : Nat),
    ds.foldl (stepGen sh b (psi sh x)) (acc.map (psi sh), cnt) =
      (((ds.foldl (stepGen (plainOf sh) b x) (acc, cnt)).1).map (psi sh), (ds.foldl (stepGen (plainOf sh) b x) (acc, cnt)).2) := by
  intro ds
  induction ds with
  | nil => intro _ acc cnt; rfl
  | cons i rest ih =>
    intro h acc cnt
    rw [List.foldl_cons, List.foldl_cons, step_comm sh hr b x hx i (h i (by simp)) acc cnt]
    exact ih (fun j hj => h j (List.mem_cons_of_mem _ hj)) _ _

/-- **the boundary commutes with the quotient onto the periodic bitmap**, for both pair orientations -/
theorem boundary_psi (sh : Shape) (hr : ∀ i, i < sh.dims → 0 < sh.radix i) (b : Bool) (x : Nat)
    (hx : x < (plainOf sh).total) : sh.boundary b (psi sh x) = ((plainOf sh).boundary b x).map (psi sh) := by
  rw [boundary_def, boundary_def, plainOf_dirsDown]
  have := fold_comm sh hr b x hx sh.dirsDown (fun i hi => (mem_dirsDown sh i).mp hi) [] 0
  simp only [List.map_nil] at this
  rw [this]

/-! ### linear functionals on flat chains -/

abbrev FChain := List (Nat × Int)

def fev (F : Nat → Int) (A : FChain) : Int := (A.map fun p => p.2 * F p.1).sum

def fdrop (c : Nat) (A : FChain) : FChain := A.filter fun p => decide (p.1 ≠ c)

theorem fcoef_cons (p : Nat × Int) (A : FChain) (g : Nat) :
    fcoef (p :: A) g = (if p.1 = g then p.2 else 0) + fcoef A g := by simp [fcoef]

theorem fcoef_append (A B : FChain) (g : Nat) : fcoef (A ++ B) g = fcoef A g + fcoef B g := by
  simp [fcoef, List.sum_append]

theorem fev_cons (F : Nat → Int) (p : Nat × Int) (A : FChain) : fev F (p :: A) = p.2 * F p.1 + fev F A := by simp [fev]

theorem fev_append (F : Nat → Int) (A B : FChain) : fev F (A ++ B) = fev F A + fev F B := by simp [fev]

theorem fev_scale (F : Nat → Int) (s : Int) (A : FChain) : fev F (A.map fun q => (q.1, s * q.2)) = s * fev F A := by
  induction A with
  | nil => simp [fev]
  | cons p A ih => rw [List.map_cons, fev_cons, fev_cons, ih]; ring

theorem fcoef_scale (s : Int) (A : FChain) (g : Nat) : fcoef (A.map fun q => (q.1, s * q.2)) g = s * fcoef A g := by
  induction A with
  | nil => simp [fcoef]
  | cons p A ih =>
    rw [List.map_cons, fcoef_cons, fcoef_cons, ih]
    by_cases hp : p.1 = g <;> simp [hp, Int.mul_add]

theorem fcoef_eq_fev (A : FChain) (g : Nat) : fcoef A g = fev (fun f => if f = g then 1 else 0) A := by
  induction A with
  | nil => rfl
  | cons p A ih => rw [fcoef_cons, fev_cons, ih]; by_cases h : p.1 = g <;> simp [h]

theorem fev_split (F : Nat → Int) (c : Nat) (A : FChain) : fev F A = fcoef A c * F c + fev F (fdrop c A) := by
  induction A with
  | nil => simp [fev, fcoef, fdrop]
  | cons p A ih =>
    rw [fev_cons, fcoef_cons, ih]
    by_cases h : p.1 = c
    · have : fdrop c (p :: A) = fdrop c A := by simp [fdrop, h]
      rw [this, if_pos h, h]; ring
    · have : fdrop c (p :: A) = p :: fdrop c A := by simp [fdrop, h]
      rw [this, fev_cons, if_neg h]; ring

theorem fcoef_fdrop (c : Nat) (A : FChain) (h : Nat) : fcoef (fdrop c A) h = if h = c then 0 else fcoef A h := by
  induction A with
  | nil => simp [fdrop, fcoef]
  | cons p A ih =>
    by_cases hp : p.1 = c
    · have : fdrop c (p :: A) = fdrop c A := by simp [fdrop, hp]
      rw [this, ih, fcoef_cons]
      by_cases hh : h = c
      · simp [hh]
      · have : ¬ p.1 = h := fun e => hh (e ▸ hp)
        simp [hh, this]
    · have : fdrop c (p :: A) = p :: fdrop c A := by simp [fdrop, hp]
      rw [this, fcoef_cons, fcoef_cons, ih]
      by_cases hh : h = c
      · subst hh; simp [hp]
      · simp [hh]

theorem fev_zero (F : Nat → Int) : ∀ (n : Nat) (A : FChain), A.length ≤ n → (∀ h, fcoef A h = 0) → fev F A = 0 := by
  intro n
  induction n with
  | zero => intro A hl _; cases A with
    | nil => rfl
    | cons _ _ => simp at hl
  | succ n ih =>
    intro A hl hz
    cases A with
    | nil => rfl
    | cons p A =>
      rw [fev_split F p.1, hz, Int.zero_mul, Int.zero_add]
      apply ih
      · have : fdrop p.1 (p :: A) = fdrop p.1 A := by simp [fdrop]
        rw [this]
        have := List.length_filter_le (fun q : Nat × Int => decide (q.1 ≠ p.1)) A
        simp only [fdrop]; simp only [List.length_cons] at hl; omega
      · intro h; rw [fcoef_fdrop]; split <;> simp [hz]

theorem fcoef_map_eq_fev (e : Nat → Nat) (A : FChain) (g : Nat) :
    fcoef (A.map fun p => (e p.1, p.2)) g = fev (fun f => if e f = g then 1 else 0) A := by
  induction A with
  | nil => rfl
  | cons p A ih => rw [List.map_cons, fcoef_cons, fev_cons, ih]; by_cases h : e p.1 = g <;> simp [h]

/-- the image of a chain with vanishing coefficients under any map of the positions has vanishing coefficients -/
theorem fcoef_map_of_zero (e : Nat → Nat) (A : FChain) (hz : ∀ h, fcoef A h = 0) (g : Nat) :
    fcoef (A.map fun p => (e p.1, p.2)) g = 0 := by
  rw [fcoef_map_eq_fev]; exact fev_zero _ _ _ (Nat.le_refl _) hz

theorem fev_neg (F : Nat → Int) (A : FChain) : fev (fun c => - F c) A = - fev F A := by
  induction A with
  | nil => simp [fev]
  | cons p A ih => rw [fev_cons, fev_cons, ih]; ring

theorem fcoef_flatMap_eq_fev (G : Nat → FChain) (A : FChain) (g : Nat) :
    fcoef (A.flatMap fun p => (G p.1).map fun q => (q.1, p.2 * q.2)) g = fev (fun c => fcoef (G c) g) A := by
  induction A with
  | nil => rfl
  | cons p A ih => rw [List.flatMap_cons, fcoef_append, fcoef_scale, ih, fev_cons]

/-! ### both classes -/

def flatChainB (sh : Shape) (b : Bool) (pos : Nat) : FChain := altN 0 (sh.boundary b pos)

def flatBBB (sh : Shape) (b : Bool) (pos : Nat) : FChain :=
  (flatChainB sh b pos).flatMap fun p => (flatChainB sh b p.1).map fun q => (q.1, p.2 * q.2)

theorem flatBBB_false (sh : Shape) (pos : Nat) : flatBBB sh false pos = flatBB sh pos := rfl

def swapPairs : List Nat → List Nat
  | a :: b :: r => b :: a :: swapPairs r
  | l => l

theorem swapPairs_append_pair : ∀ (l : List Nat) (a b : Nat), l.length % 2 = 0 →
    swapPairs (l ++ [a, b]) = swapPairs l ++ [b, a]
  | [], a, b, _ => rfl
  | [x], a, b, h => by simp at h
  | x :: y :: r, a, b, h => by
    have := swapPairs_append_pair r a b (by simp only [List.length_cons] at h; omega)
    simp only [List.cons_append, swapPairs, this]

theorem mem_swapPairs : ∀ (l : List Nat) (x : Nat), x ∈ swapPairs l ↔ x ∈ l
  | [], x => by simp [swapPairs]
  | [a], x => by simp [swapPairs]
  | a :: b :: r, x => by
    have := mem_swapPairs r x
    simp only [swapPairs, List.mem_cons, this]
    constructor <;> rintro (h | h | h) <;> simp [h]

theorem pairOf_true (cnt lo hi : Nat) : ∃ u v, pairOf false cnt lo hi = [u, v] ∧ pairOf true cnt lo hi = [v, u] := by
  unfold pairOf
  by_cases h : cnt % 2 = 1
  · exact ⟨hi, lo, by simp [h], by simp [h]⟩
  · exact ⟨lo, hi, by simp [h], by simp [h]⟩

theorem fold_swap (sh : Shape) (pos : Nat) : ∀ (ds : List Nat) (acc : List Nat) (cnt : Nat), acc.length % 2 = 0 →
    ds.foldl (stepGen sh true pos) (swapPairs acc, cnt) =
      (swapPairs (ds.foldl (stepGen sh false pos) (acc, cnt)).1, (ds.foldl (stepGen sh false pos) (acc, cnt)).2) ∧
    (ds.foldl (stepGen sh false pos) (acc, cnt)).1.length % 2 = 0 := by
  intro ds
  induction ds with
  | nil => intro acc cnt h; exact ⟨rfl, h⟩
  | cons i rest ih =>
    intro acc cnt h
    rw [List.foldl_cons, List.foldl_cons, stepGen_eq, stepGen_eq]
    by_cases hodd : sh.digit pos i % 2 = 1
    · simp only [hodd, if_true]
      obtain ⟨u, v, hf, ht⟩ := pairOf_true cnt (pos - sh.mult i) (hiOf sh pos i)
      rw [hf, ht, ← swapPairs_append_pair acc u v h]
      exact ih (acc ++ [u, v]) (cnt + 1) (by simp only [List.length_append, List.length_cons, List.length_nil]; omega)
    · simp only [hodd, if_false]
      exact ih acc cnt h

/-- the periodic class lists each pair of faces in the other order -/
theorem boundary_true_swap (sh : Shape) (pos : Nat) :
    sh.boundary true pos = swapPairs (sh.boundary false pos) ∧ (sh.boundary false pos).length % 2 = 0 := by
  have := fold_swap sh pos sh.dirsDown [] 0 rfl
  rw [boundary_def, boundary_def]
  exact ⟨by have h := this.1; simp only [swapPairs] at h; rw [h], this.2⟩

theorem fev_altN_swap (F : Nat → Int) : ∀ (l : List Nat) (k : Nat), l.length % 2 = 0 →
    fev F (altN k (swapPairs l)) = - fev F (altN k l)
  | [], k, _ => by simp [swapPairs, altN, fev]
  | [a], k, h => by simp at h
  | a :: b :: r, k, h => by
    have ih := fev_altN_swap F r (k + 2) (by simp only [List.length_cons] at h; omega)
    simp only [swapPairs, altN, fev_cons, ih]
    rcases Nat.mod_two_eq_zero_or_one k with hk | hk
    · have h1 : (k + 1) % 2 = 1 := by omega
      simp [hk, h1]; ring
    · have h1 : (k + 1) % 2 = 0 := by omega
      simp [hk, h1]; ring

theorem altN_mapN (e : Nat → Nat) : ∀ (k : Nat) (l : List Nat), altN k (l.map e) = (altN k l).map fun p => (e p.1, p.2)
  | _, [] => rfl
  | k, c :: cs => by simp [altN, altN_mapN e (k + 1) cs]

theorem altN_fst_mem : ∀ (k : Nat) (l : List Nat) (p : Nat × Int), p ∈ altN k l → p.1 ∈ l
  | _, [], p, h => by simp [altN] at h
  | k, c :: cs, p, h => by
    simp only [altN, List.mem_cons] at h
    rcases h with rfl | h
    · simp
    · exact List.mem_cons_of_mem _ (altN_fst_mem (k + 1) cs p h)

theorem fcoef_chain_true (sh : Shape) (pos g : Nat) :
    fcoef (flatChainB sh true pos) g = - fcoef (flatChainB sh false pos) g := by
  obtain ⟨hs, hl⟩ := boundary_true_swap sh pos
  rw [fcoef_eq_fev, fcoef_eq_fev, flatChainB, flatChainB, hs, fev_altN_swap _ _ _ hl]

/-- ∂∂ = 0 for both pair orientations on a bitmap without periodic directions -/
theorem flat_bd_bd_plain (sh : Shape) (hper : ∀ i, sh.isPer i = false) (b : Bool) (pos : Nat) (hpos : pos < sh.total)
    (g : Nat) : fcoef (flatBBB sh b pos) g = 0 := by
  cases b with
  | false => rw [flatBBB_false]; exact flat_bd_bd sh hper pos hpos g
  | true =>
    rw [flatBBB, fcoef_flatMap_eq_fev]
    have hF : (fun c => fcoef (flatChainB sh true c) g) = fun c => - fcoef (flatChainB sh false c) g := by
      funext c; exact fcoef_chain_true sh c g
    obtain ⟨hs, hl⟩ := boundary_true_swap sh pos
    rw [hF, fev_neg, flatChainB, hs, fev_altN_swap _ _ _ hl, Int.neg_neg]
    have := flat_bd_bd sh hper pos hpos g
    rw [flatBB, fcoef_flatMap_eq_fev] at this
    exact this

theorem boundary_in_range_b (sh : Shape) (hper : ∀ i, sh.isPer i = false) (b : Bool) (pos : Nat) (hpos : pos < sh.total) :
    ∀ f ∈ sh.boundary b pos, f < sh.total := by
  intro f hf
  cases b with
  | false => exact boundary_in_range sh hper pos hpos f hf
  | true =>
    rw [(boundary_true_swap sh pos).1, mem_swapPairs] at hf
    exact boundary_in_range sh hper pos hpos f hf

theorem flatChainB_psi (sh : Shape) (hr : ∀ i, i < sh.dims → 0 < sh.radix i) (b : Bool) (x : Nat)
    (hx : x < (plainOf sh).total) :
    flatChainB sh b (psi sh x) = (flatChainB (plainOf sh) b x).map fun p => (psi sh p.1, p.2) := by
  rw [flatChainB, boundary_psi sh hr b x hx, altN_mapN]; rfl

/-- **∂∂ = 0 on flat positions for every shape, every subset of periodic directions and both classes** -/
theorem flat_bd_bd_all (sh : Shape) (hr : ∀ i, i < sh.dims → 0 < sh.radix i) (b : Bool) (pos : Nat)
    (hpos : pos < sh.total) (g : Nat) : fcoef (flatBBB sh b pos) g = 0 := by
  obtain ⟨x, hx, rfl⟩ := psi_surj sh hr pos hpos
  have hBB : flatBBB sh b (psi sh x) = (flatBBB (plainOf sh) b x).map fun p => (psi sh p.1, p.2) := by
    rw [flatBBB, flatChainB_psi sh hr b x hx, List.flatMap_map, flatBBB, List.map_flatMap]
    apply flatMap_congr_mem
    intro p hp
    have hp' : p.1 < (plainOf sh).total :=
      boundary_in_range_b (plainOf sh) (plainOf_isPer sh) b x hx p.1 (altN_fst_mem 0 _ p hp)
    rw [flatChainB_psi sh hr b p.1 hp']
    simp [List.map_map, Function.comp_def]
  rw [hBB]
  exact fcoef_map_of_zero (psi sh) _ (flat_bd_bd_plain (plainOf sh) (plainOf_isPer sh) b x hx) g

/-- non-vacuity: the top cell of a 2×2 torus (both directions periodic), periodic class: its four edges, with the wrap-around ones,
    and the boundary of the boundary, which cancels pairwise -/
example : ({ sizes := [2, 2], per := [true, true] } : Shape).boundary true 5 = [9, 1, 4, 6] := by decide
example : flatBBB { sizes := [2, 2], per := [true, true] } true 5 =
    [(10, 1), (8, -1), (2, -1), (0, 1), (8, 1), (0, -1), (10, -1), (2, 1)] := by decide

end CubBridge
