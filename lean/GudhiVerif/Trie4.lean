import GudhiVerif.Trie3
/-! Prototype, part 4 (C01/C03): `remove_maximal_simplex`, `prune_above_filtration`, `prune_above_dimension` on the
    Forest encoding with their `find` characterisations. Core Lean only. -/
namespace TrieProto
open Forest List

def isNil : Forest → Bool
  | Forest.nil => true
  | Forest.cons .. => false

theorem isNil_iff (k : Forest) : isNil k = true ↔ k = Forest.nil := by cases k <;> simp [isNil]

/-- `remove_maximal_simplex`: delete the node of word `w` when it is a leaf (otherwise unchanged: the C++ precondition) -/
def removeLeaf : Forest → List Nat → Forest
  | t, [] => t
  | Forest.nil, _ :: _ => Forest.nil
  | Forest.cons l g k r, [v] =>
    if v = l then (if isNil k then r else Forest.cons l g k r)
    else Forest.cons l g k (removeLeaf r [v])
  | Forest.cons l g k r, v :: v2 :: vs =>
    if v = l then Forest.cons l g (removeLeaf k (v2 :: vs)) r else Forest.cons l g k (removeLeaf r (v :: v2 :: vs))
termination_by t w => (w.length, t)
decreasing_by
  all_goals simp_wf
  all_goals first
    | (apply Prod.Lex.right; simp; omega)
    | (apply Prod.Lex.left; simp)

/-- `rec_prune_above_filtration`: a node with a value above `f` disappears with its whole subtree -/
def prune : Forest → Int → Forest
  | Forest.nil, _ => Forest.nil
  | Forest.cons l g k r, f => if f < g then prune r f else Forest.cons l g (prune k f) (prune r f)

/-- `rec_prune_above_dimension`: keep `d + 1` levels -/
def pruneDim : Forest → Nat → Forest
  | Forest.nil, _ => Forest.nil
  | Forest.cons l g _ r, 0 => Forest.cons l g Forest.nil (pruneDim r 0)
  | Forest.cons l g k r, d + 1 => Forest.cons l g (pruneDim k d) (pruneDim r (d + 1))

theorem find_pruneDim (t : Forest) : ∀ (d : Nat) (q : List Nat),
    find (pruneDim t d) q = if q.length ≤ d + 1 then find t q else none := by
  induction t with
  | nil => intro d q; cases d <;> simp [pruneDim, find_nil_forest]
  | cons l g k r ihk ihr =>
    intro d q
    cases q with
    | nil => simp [find_nil_word]
    | cons a q' =>
      cases d with
      | zero =>
        simp only [pruneDim]
        rw [find_cons, find_cons, ihr 0 (a :: q'), find_nil_forest]
        by_cases hal : a = l
        · by_cases hq : q' = []
          · simp [hal, hq]
          · have : ¬ (a :: q').length ≤ 0 + 1 := by
              cases q' with
              | nil => exact absurd rfl hq
              | cons b q'' => simp
            simp [hal, hq, this]
        · simp [hal]
      | succ d =>
        simp only [pruneDim]
        rw [find_cons, find_cons, ihr (d + 1) (a :: q'), ihk d q']
        by_cases hal : a = l
        · by_cases hq : q' = []
          · simp [hal, hq]
          · simp only [hal, if_true, hq, if_false, List.length_cons]
            by_cases hlen : q'.length ≤ d + 1
            · have : q'.length + 1 ≤ d + 1 + 1 := by omega
              simp [hlen, this]
            · have : ¬ q'.length + 1 ≤ d + 1 + 1 := by omega
              simp [hlen, this]
        · simp [hal]

/-- what `find` returns after pruning, described on the original tree: every node on the path must have a value ≤ f -/
def survives : Forest → Int → List Nat → Option Int
  | _, _, [] => none
  | Forest.nil, _, _ :: _ => none
  | Forest.cons l g _ r, f, [v] => if v = l then (if g ≤ f then some g else none) else survives r f [v]
  | Forest.cons l g k r, f, v :: v2 :: vs =>
    if v = l then (if g ≤ f then survives k f (v2 :: vs) else none) else survives r f (v :: v2 :: vs)
termination_by t _ w => (w.length, t)
decreasing_by
  all_goals simp_wf
  all_goals first
    | (apply Prod.Lex.right; simp; omega)
    | (apply Prod.Lex.left; simp)

theorem survives_nil (f : Int) (q : List Nat) : survives Forest.nil f q = none := by
  cases q <;> simp [survives]

theorem survives_cons (l : Nat) (g : Int) (k r : Forest) (f : Int) (a : Nat) (q' : List Nat) :
    survives (Forest.cons l g k r) f (a :: q') =
      if a = l then (if g ≤ f then (if q' = [] then some g else survives k f q') else none)
      else survives r f (a :: q') := by
  cases q' with
  | nil => simp [survives]
  | cons b q'' => simp [survives]

/-- **`prune_above_filtration`** on a sorted tree -/
theorem find_prune (t : Forest) : ∀ (lb : Option Nat) (f : Int) (q : List Nat), Sorted lb t →
    find (prune t f) q = survives t f q := by
  induction t with
  | nil => intro lb f q _; simp [prune, find_nil_forest, survives_nil]
  | cons l g k r ihk ihr =>
    intro lb f q hs
    cases q with
    | nil => simp [find_nil_word, survives]
    | cons a q' =>
      rw [survives_cons]
      simp only [prune]
      by_cases hfg : f < g
      · have hng : ¬ g ≤ f := by omega
        simp only [hfg, if_true, hng, if_false]
        rw [ihr (some l) f (a :: q') hs.2.2]
        by_cases hal : a = l
        · subst hal
          -- nothing labelled `a` lives among the later siblings
          simp only [if_true]
          have hnone : ∀ (t : Forest) (b : Nat), Sorted (some b) t → a ≤ b → survives t f (a :: q') = none := by
            intro t
            induction t with
            | nil => intro b _ _; exact survives_nil f _
            | cons l' g' k' r' _ ihr' =>
              intro b hs' hab
              rw [survives_cons]
              have : ¬ a = l' := by have := hs'.1; omega
              simp only [this, if_false]
              exact ihr' l' hs'.2.2 (by have := hs'.1; omega)
          exact hnone r a hs.2.2 (Nat.le_refl _)
        · simp [hal]
      · have hg : g ≤ f := by omega
        simp only [hfg, if_false, hg, if_true]
        rw [find_cons, ihr (some l) f (a :: q') hs.2.2, ihk (some l) f q' hs.2.1]

/-- on a valid (monotone) tree, pruning keeps exactly the sublevel set -/
theorem survives_sublevel (t : Forest) : ∀ (f : Int) (q : List Nat), Valid t →
    survives t f q = (match find t q with | some g => if g ≤ f then some g else none | none => none) := by
  induction t with
  | nil => intro f q _; simp [survives_nil, find_nil_forest]
  | cons l g k r ihk ihr =>
    intro f q hv
    cases q with
    | nil => simp [survives, find_nil_word]
    | cons a q' =>
      rw [survives_cons, find_cons]
      by_cases hal : a = l
      · simp only [hal, if_true]
        by_cases hq : q' = []
        · simp [hq]
        · simp only [hq, if_false]
          by_cases hg : g ≤ f
          · simp only [hg, if_true]; exact ihk f q' hv.1
          · simp only [hg, if_false]
            -- every word below this node has a value ≥ g > f
            cases hfk : find k q' with
            | none => rfl
            | some x =>
              have := (hv.2.2 q' x hfk).1
              have : ¬ x ≤ f := by omega
              simp [this]
      · simp only [hal, if_false]; exact ihr f (a :: q') hv.2.1

#print axioms find_pruneDim
#print axioms find_prune
#print axioms survives_sublevel
end TrieProto

namespace TrieProto
open Forest List

/-- children of the node of word `w` (none if the word is absent) -/
def kidsAt : Forest → List Nat → Option Forest
  | _, [] => none
  | Forest.nil, _ :: _ => none
  | Forest.cons l _ k r, [v] => if v = l then some k else kidsAt r [v]
  | Forest.cons l _ k r, v :: v2 :: vs => if v = l then kidsAt k (v2 :: vs) else kidsAt r (v :: v2 :: vs)
termination_by t w => (w.length, t)
decreasing_by
  all_goals simp_wf
  all_goals first
    | (apply Prod.Lex.right; simp; omega)
    | (apply Prod.Lex.left; simp)

/-- **`remove_maximal_simplex`** on a sorted tree: exactly the leaf `w` disappears -/
theorem find_removeLeaf (t : Forest) (w : List Nat) : ∀ (lb : Option Nat) (q : List Nat), Sorted lb t →
    kidsAt t w = some Forest.nil →
    find (removeLeaf t w) q = if q = w then none else find t q := by
  induction t, w using removeLeaf.induct with
  | case1 t => intro lb q _ hk; simp [kidsAt] at hk
  | case2 v vs => intro lb q _ hk; simp [kidsAt] at hk
  | case3 g k r v hnil =>
    -- the leaf itself, children empty
    intro lb q hs _
    simp only [removeLeaf, if_true, hnil]
    have hk0 : k = Forest.nil := (isNil_iff k).mp hnil
    subst hk0
    cases q with
    | nil => simp [find_nil_word]
    | cons a q' =>
      rw [find_cons, find_nil_forest]
      by_cases hav : a = v
      · subst hav
        have hnone := find_none_of_le hs.2.2 (Nat.le_refl a) q'
        rw [hnone]
        by_cases hq : q' = []
        · simp [hq]
        · simp [hq]
      · have : ¬ (a :: q' = [v]) := by intro h; cases h; exact hav rfl
        simp [hav, this]
  | case4 g k r v hnil =>
    -- the node has children: the hypothesis is contradictory
    intro lb q _ hk
    rw [kidsAt] at hk
    rw [if_pos rfl] at hk
    have : k = Forest.nil := Option.some.inj hk
    rw [this] at hnil
    exact absurd rfl hnil
  | case5 l g k r v hne ih =>
    intro lb q hs hk
    simp only [kidsAt, hne, if_false] at hk
    simp only [removeLeaf, hne, if_false]
    have ih' := ih (some l) q hs.2.2 hk
    cases q with
    | nil => simp [find_nil_word]
    | cons a q' =>
      rw [find_cons, find_cons]
      by_cases hal : a = l
      · have : ¬ (a :: q' = [v]) := by intro h; cases h; first | exact hne hal | exact hne hal.symm
        rw [if_neg this]; simp [hal]
      · simp only [hal, if_false]; exact ih'
  | case6 g k r v v2 vs ih =>
    intro lb q hs hk
    simp only [kidsAt, if_true] at hk
    simp only [removeLeaf, if_true]
    cases q with
    | nil => simp [find_nil_word]
    | cons a q' =>
      rw [find_cons, find_cons]
      by_cases hav : a = v
      · subst hav
        simp only [if_true]
        by_cases hq : q' = []
        · simp [hq]
        · simp only [hq, if_false]
          rw [ih (some a) q' hs.2.1 hk]
          simp
      · have : ¬ (a :: q' = v :: v2 :: vs) := by intro h; cases h; exact hav rfl
        simp [hav, this]
  | case7 l g k r v v2 vs hne ih =>
    intro lb q hs hk
    simp only [kidsAt, hne, if_false] at hk
    simp only [removeLeaf, hne, if_false]
    have ih' := ih (some l) q hs.2.2 hk
    cases q with
    | nil => simp [find_nil_word]
    | cons a q' =>
      rw [find_cons, find_cons]
      by_cases hal : a = l
      · have : ¬ (a :: q' = v :: v2 :: vs) := by intro h; cases h; first | exact hne hal | exact hne hal.symm
        rw [if_neg this]; simp [hal]
      · simp only [hal, if_false]; exact ih'

#print axioms find_removeLeaf
end TrieProto
