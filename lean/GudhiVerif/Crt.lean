import Mathlib.FieldTheory.Finite.Basic
import Mathlib.Data.Nat.Prime.Basic
import Mathlib.Data.ZMod.Basic
import Mathlib.Tactic

/-! Prototype: the CRT idempotents of the multi-field classes, `U = (P/p)^(p-1) mod P`:
    `U ≡ 1 (mod p)` and `U ≡ 0 (mod q)` for every other prime factor `q` of the square-free `P`. -/

theorem crt_idem_one {P p : ℕ} (hp : p.Prime) (hdiv : p ∣ P) (hcop : Nat.Coprime (P / p) p) :
    ((P / p) ^ (p - 1) % P) % p = 1 % p := by
  haveI := Fact.mk hp
  -- reduce modulo p first (p ∣ P)
  rw [Nat.mod_mod_of_dvd _ hdiv]
  have h1 : ((P / p : ℕ) : ZMod p) ≠ 0 := by
    intro h0
    have : p ∣ P / p := (ZMod.natCast_eq_zero_iff _ _).mp h0
    have := Nat.Coprime.eq_one_of_dvd hcop.symm this
    exact hp.one_lt.ne' this
  have h2 : ((P / p : ℕ) : ZMod p) ^ (p - 1) = 1 := ZMod.pow_card_sub_one_eq_one h1
  have h3 : (((P / p) ^ (p - 1) : ℕ) : ZMod p) = ((1 : ℕ) : ZMod p) := by push_cast; exact h2
  exact (ZMod.natCast_eq_natCast_iff' _ _ _).mp h3

theorem crt_idem_zero {P p q : ℕ} (hp : p.Prime) (hP : 0 < P) (hpP : p ∣ P) (hq : q ∣ P / p) (hp1 : 1 ≤ p - 1) :
    ((P / p) ^ (p - 1) % P) % q = 0 := by
  have hqP : q ∣ P := Dvd.dvd.trans hq (Nat.div_dvd_of_dvd hpP)
  rw [Nat.mod_mod_of_dvd _ hqP]
  apply Nat.mod_eq_zero_of_dvd
  exact Dvd.dvd.trans hq (dvd_pow_self _ (by omega))

#print axioms crt_idem_one
#print axioms crt_idem_zero
