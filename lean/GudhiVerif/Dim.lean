import GudhiVerif.Trie4
/-! Prototype (C01): the lazy dimension bookkeeping around `remove_maximal_simplex`.  `maxLen` is the number of vertices
    of a largest simplex (dimension + 1); `flagOf` is the condition under which the C++ sets `dimension_to_be_lowered_`
    (the sibling set of the removed leaf becomes empty and is not the root); `maxLen_removeLeaf`: when the flag is not set
    and the root is not emptied, the dimension is unchanged — so an exact `dimension_` stays exact.  The root case is
    defect D2 (witness below).  Core Lean only. -/
namespace TrieProto
open Forest List

def maxLen : Forest → Nat
  | Forest.nil => 0
  | Forest.cons _ _ k r => max (maxLen k + 1) (maxLen r)

theorem maxLen_pos {t : Forest} (h : t ≠ Forest.nil) : 1 ≤ maxLen t := by
  cases t with
  | nil => exact absurd rfl h
  | cons l g k r => simp only [maxLen]; omega

/-- `dimension_to_be_lowered_ = true` is executed: the leaf is not in the root set and its sibling set is emptied -/
def flagOf : Forest → List Nat → Bool
  | Forest.nil, _ => false
  | Forest.cons _ _ _ _, [] => false
  | Forest.cons _ _ _ _, [_] => false
  | Forest.cons l _ k r, v :: v2 :: vs =>
    if v = l then (if vs.isEmpty then isNil (removeLeaf k [v2]) else flagOf k (v2 :: vs))
    else flagOf r (v :: v2 :: vs)
termination_by t w => (w.length, t)
decreasing_by
  all_goals simp_wf
  all_goals first
    | (apply Prod.Lex.right; simp; omega)
    | (apply Prod.Lex.left; simp)

/-- removing a childless member from a sibling list that stays non-empty does not change `maxLen` -/
theorem maxLen_removeLeaf_single (t : Forest) (v : Nat) (hk : kidsAt t [v] = some Forest.nil)
    (hne : removeLeaf t [v] ≠ Forest.nil) : maxLen (removeLeaf t [v]) = maxLen t := by
  induction t with
  | nil => simp [kidsAt] at hk
  | cons l g k r _ ihr =>
    by_cases hvl : v = l
    · subst hvl
      have hknil : k = Forest.nil := by simpa [kidsAt] using hk
      subst hknil
      have e : removeLeaf (Forest.cons v g Forest.nil r) [v] = r := by simp [removeLeaf, isNil]
      rw [e] at hne ⊢
      have := maxLen_pos hne
      simp only [maxLen]; omega
    · have e : removeLeaf (Forest.cons l g k r) [v] = Forest.cons l g k (removeLeaf r [v]) := by
        simp [removeLeaf, hvl]
      have hk' : kidsAt r [v] = some Forest.nil := by simpa [kidsAt, hvl] using hk
      rw [e]
      simp only [maxLen]
      by_cases hr' : removeLeaf r [v] = Forest.nil
      · -- r was the single leaf
        rw [hr']
        have hr1 : maxLen r = 1 := by
          cases r with
          | nil => simp [kidsAt] at hk'
          | cons l' g' k' r' =>
            by_cases hv' : v = l'
            · subst hv'
              have hk'nil : k' = Forest.nil := by simpa [kidsAt] using hk'
              subst hk'nil
              have : removeLeaf (Forest.cons v g' Forest.nil r') [v] = r' := by simp [removeLeaf, isNil]
              rw [this] at hr'
              subst hr'
              simp [maxLen]
            · simp [removeLeaf, hv'] at hr'
        simp only [maxLen]; omega
      · rw [ihr hk' hr']

/-- **no flag, root not emptied ⇒ the dimension is unchanged** -/
theorem maxLen_removeLeaf (t : Forest) (w : List Nat) : kidsAt t w = some Forest.nil → flagOf t w = false →
    (2 ≤ w.length ∨ removeLeaf t w ≠ Forest.nil) → maxLen (removeLeaf t w) = maxLen t := by
  induction t, w using removeLeaf.induct with
  | case1 t => intro hk; simp [kidsAt] at hk
  | case2 v vs => intro hk; simp [kidsAt] at hk
  | case3 g k r v hnil =>
    intro hk _ hne
    have hne' : removeLeaf (Forest.cons v g k r) [v] ≠ Forest.nil := by
      rcases hne with h | h
      · simp at h
      · exact h
    exact maxLen_removeLeaf_single _ v hk hne'
  | case4 g k r v hnil =>
    intro hk _ _
    have : k = Forest.nil := by simpa [kidsAt] using hk
    rw [this] at hnil; simp [isNil] at hnil
  | case5 l g k r v hvl _ =>
    intro hk _ hne
    have hne' : removeLeaf (Forest.cons l g k r) [v] ≠ Forest.nil := by
      simp [removeLeaf, hvl]
    exact maxLen_removeLeaf_single _ v hk hne'
  | case6 g k r v v2 vs ih =>
    intro hk hflag _
    have hk' : kidsAt k (v2 :: vs) = some Forest.nil := by simpa [kidsAt] using hk
    rw [removeLeaf, if_pos rfl]
    simp only [maxLen]
    rw [flagOf, if_pos rfl] at hflag
    by_cases hvs : vs.isEmpty = true
    · have : vs = [] := List.isEmpty_iff.mp hvs
      subst this
      simp only [List.isEmpty_nil, if_true] at hflag
      have hne : removeLeaf k [v2] ≠ Forest.nil := by
        intro e; rw [e] at hflag; simp [isNil] at hflag
      rw [maxLen_removeLeaf_single k v2 hk' hne]
    · rw [if_neg hvs] at hflag
      have hlen : 2 ≤ (v2 :: vs).length := by
        cases vs with
        | nil => simp at hvs
        | cons _ _ => simp
      rw [ih hk' hflag (Or.inl hlen)]
  | case7 l g k r v v2 vs hvl ih =>
    intro hk hflag _
    have hk' : kidsAt r (v :: v2 :: vs) = some Forest.nil := by simpa [kidsAt, hvl] using hk
    rw [removeLeaf, if_neg hvl]
    simp only [maxLen]
    rw [flagOf, if_neg hvl] at hflag
    rw [ih hk' hflag (Or.inl (by simp))]

/-- D2 on its witness: removing the only vertex empties the root, the flag is not set, and the dimension does change -/
theorem d2_witness :
    flagOf (Forest.cons 0 0 Forest.nil Forest.nil) [0] = false ∧
    maxLen (removeLeaf (Forest.cons 0 0 Forest.nil Forest.nil) [0]) ≠ maxLen (Forest.cons 0 0 Forest.nil Forest.nil) := by
  simp [flagOf, removeLeaf, maxLen, isNil]

theorem maxLen_removeLeaf_le (t : Forest) (w : List Nat) : maxLen (removeLeaf t w) ≤ maxLen t := by
  induction t, w using removeLeaf.induct with
  | case1 t => cases t <;> simp [removeLeaf]
  | case2 v vs => simp [removeLeaf]
  | case3 g k r v hnil => rw [removeLeaf, if_pos rfl, if_pos hnil]; simp only [maxLen]; omega
  | case4 g k r v hnil => rw [removeLeaf, if_pos rfl, if_neg hnil]; exact Nat.le_refl _
  | case5 l g k r v hvl ih => rw [removeLeaf, if_neg hvl]; simp only [maxLen]; omega
  | case6 g k r v v2 vs ih => rw [removeLeaf, if_pos rfl]; simp only [maxLen]; omega
  | case7 l g k r v v2 vs hvl ih => rw [removeLeaf, if_neg hvl]; simp only [maxLen]; omega

/-- the model state: tree, upper bound on `maxLen` (= `dimension_ + 1`), and `dimension_to_be_lowered_` -/
structure DState where
  t : Forest
  ub : Nat
  lazy : Bool

/-- the invariant of the lazy bookkeeping -/
def DInv (s : DState) : Prop := maxLen s.t ≤ s.ub ∧ (s.lazy = false → s.ub = maxLen s.t)

/-- repaired `remove_maximal_simplex`: also flags when the root set is emptied (as implemented: without the last disjunct) -/
def removeMaxFixed (s : DState) (w : List Nat) : DState :=
  { t := removeLeaf s.t w, ub := s.ub,
    lazy := s.lazy || flagOf s.t w || (decide (w.length < 2) && isNil (removeLeaf s.t w)) }

/-- `dimension()`: recompute when flagged (`lower_upper_bound_dimension`), then answer -/
def dimensionQ (s : DState) : DState × Nat :=
  if s.lazy then ({ s with ub := maxLen s.t, lazy := false }, maxLen s.t) else (s, s.ub)

theorem dinv_removeMaxFixed (s : DState) (w : List Nat) (h : DInv s) (hk : kidsAt s.t w = some Forest.nil) :
    DInv (removeMaxFixed s w) := by
  refine ⟨Nat.le_trans (maxLen_removeLeaf_le s.t w) h.1, ?_⟩
  intro hl
  simp only [removeMaxFixed, Bool.or_eq_false_iff, Bool.and_eq_false_iff, decide_eq_false_iff_not] at hl
  obtain ⟨⟨hl1, hl2⟩, hl3⟩ := hl
  have hcond : 2 ≤ w.length ∨ removeLeaf s.t w ≠ Forest.nil := by
    rcases hl3 with h3 | h3
    · exact Or.inl (by omega)
    · right; intro e; rw [e] at h3; simp [isNil] at h3
  show s.ub = maxLen (removeLeaf s.t w)
  rw [maxLen_removeLeaf s.t w hk hl2 hcond]
  exact h.2 hl1

/-- `dimension()` is exact in every state satisfying the invariant, and leaves the invariant in place -/
theorem dimensionQ_exact (s : DState) (h : DInv s) : (dimensionQ s).2 = maxLen s.t ∧ DInv (dimensionQ s).1 := by
  unfold dimensionQ
  by_cases hl : s.lazy = true
  · rw [if_pos hl]; exact ⟨rfl, Nat.le_refl _, fun _ => rfl⟩
  · have hl' : s.lazy = false := by simpa using hl
    rw [if_neg hl]; exact ⟨h.2 hl', h⟩

#print axioms maxLen_removeLeaf
#print axioms d2_witness
#print axioms dinv_removeMaxFixed
#print axioms dimensionQ_exact
end TrieProto
