/-! Prototype (C11): Ripser's combinatorial-number-system encoding of simplices.  `binom` is the Pascal table `B[k][n]`,
    `getMax` the binary search of `Cns_encoding::get_max`, `decode` is `get_simplex_vertices`, `encode` the sum
    `Σ B[k-i][v_i]` over the vertices in decreasing order.  `decode_encode`: decoding an encoded simplex returns its vertices.
    Core Lean only. -/
namespace CnsProto

/-- `B[k][n]` as filled by the constructor (Pascal's rule) -/
def binom : Nat → Nat → Nat
  | _, 0 => 1
  | 0, _ + 1 => 0
  | n + 1, k + 1 => binom n k + binom n (k + 1)

theorem binom_zero_of_lt : ∀ n k, n < k → binom n k = 0 := by
  intro n
  induction n with
  | zero => intro k h; cases k with
    | zero => omega
    | succ k => rfl
  | succ n ih =>
    intro k h
    cases k with
    | zero => omega
    | succ k => rw [binom, ih k (by omega), ih (k + 1) (by omega)]

theorem binom_mono : ∀ k a b, a ≤ b → binom a k ≤ binom b k := by
  intro k a b hab
  induction b generalizing k a with
  | zero => have : a = 0 := by omega
            subst this; exact Nat.le_refl _
  | succ b ih =>
    rcases Nat.lt_or_eq_of_le hab with hlt | heq
    · have h1 := ih k a (by omega)
      cases k with
      | zero => simp [binom]
      | succ k => rw [binom]; omega
    · subst heq; exact Nat.le_refl _

theorem binom_one : ∀ n, binom n 1 = n := by
  intro n
  induction n with
  | zero => rfl
  | succ n ih => rw [binom, ih]; simp [binom]; omega

/-- the loop of `get_max` -/
def loop (pred : Nat → Bool) : Nat → Nat → Nat
  | 0, top => top
  | count + 1, top =>
    let step := (count + 1) / 2
    let mid := top - step
    if !pred mid then loop pred (count + 1 - (step + 1)) (mid - 1) else loop pred step top
termination_by count => count
decreasing_by all_goals omega

/-- `get_max(top, bottom, pred)` -/
def getMax (pred : Nat → Bool) (top bottom : Nat) : Nat :=
  if !pred top then loop pred (top - bottom) top else top

theorem loop_spec (pred : Nat → Bool) (hmono : ∀ a b, a ≤ b → pred b = true → pred a = true) (T : Nat) :
    ∀ count top, count ≤ top → top ≤ T → pred (top - count) = true → (∀ w, top < w → w ≤ T → pred w = false) →
      pred (loop pred count top) = true ∧ top - count ≤ loop pred count top ∧ loop pred count top ≤ top ∧
      ∀ w, loop pred count top < w → w ≤ T → pred w = false := by
  intro count
  induction count using Nat.strongRecOn with
  | ind count ih =>
    intro top hct hT hlow habove
    cases count with
    | zero => rw [loop]; exact ⟨by simpa using hlow, by omega, Nat.le_refl _, habove⟩
    | succ c =>
      rw [loop]
      by_cases hp : pred (top - (c + 1) / 2) = true
      · simp only [hp, Bool.not_true, Bool.false_eq_true, if_false]
        have := ih ((c + 1) / 2) (by omega) top (by omega) hT hp habove
        exact ⟨this.1, by omega, this.2.2.1, this.2.2.2⟩
      · have hp' : pred (top - (c + 1) / 2) = false := by simpa using hp
        simp only [hp', Bool.not_false, if_true]
        have hmidpos : 1 ≤ top - (c + 1) / 2 := by omega
        have hlow' : pred (top - (c + 1) / 2 - 1 - (c + 1 - ((c + 1) / 2 + 1))) = true := by
          have : top - (c + 1) / 2 - 1 - (c + 1 - ((c + 1) / 2 + 1)) = top - (c + 1) := by omega
          rw [this]; exact hlow
        have habove' : ∀ w, top - (c + 1) / 2 - 1 < w → w ≤ T → pred w = false := by
          intro w hw hwT
          by_cases hwt : top < w
          · exact habove w hwt hwT
          · cases hpw : pred w with
            | false => rfl
            | true =>
              have := hmono (top - (c + 1) / 2) w (by omega) hpw
              rw [hp'] at this; cases this
        have := ih (c + 1 - ((c + 1) / 2 + 1)) (by omega) (top - (c + 1) / 2 - 1) (by omega) (by omega) hlow' habove'
        exact ⟨this.1, by omega, by omega, this.2.2.2⟩

theorem getMax_spec (pred : Nat → Bool) (hmono : ∀ a b, a ≤ b → pred b = true → pred a = true) (top bottom : Nat)
    (hbt : bottom ≤ top) (hbot : pred bottom = true) :
    pred (getMax pred top bottom) = true ∧ getMax pred top bottom ≤ top ∧
    ∀ w, getMax pred top bottom < w → w ≤ top → pred w = false := by
  unfold getMax
  by_cases hp : pred top = true
  · rw [if_neg (by rw [hp]; decide)]
    exact ⟨hp, Nat.le_refl _, fun w h1 h2 => by omega⟩
  · have hp' : pred top = false := by simpa using hp
    rw [if_pos (by rw [hp']; decide)]
    have := loop_spec pred hmono top (top - bottom) top (by omega) (Nat.le_refl _)
      (by have : top - (top - bottom) = bottom := by omega
          rw [this]; exact hbot)
      (fun w h1 h2 => by omega)
    exact ⟨this.1, this.2.2.1, this.2.2.2⟩

/-- index of the simplex with vertices `v_{k-1} > … > v_0` (given top first) -/
def encode : List Nat → Nat
  | [] => 0
  | v :: vs => binom v (vs.length + 1) + encode vs

/-- `get_simplex_vertices`: `k` vertices remain to be read, `top` bounds the next one -/
def decode : Nat → Nat → Nat → List Nat
  | 0, _, _ => []
  | 1, idx, _ => [idx]
  | k + 2, idx, top =>
    let v := getMax (fun w => decide (binom w (k + 2) ≤ idx)) top (k + 1)
    v :: decode (k + 1) (idx - binom v (k + 2)) v

/-- strictly decreasing -/
def Dec : List Nat → Prop
  | [] => True
  | [_] => True
  | a :: b :: t => b < a ∧ Dec (b :: t)

theorem dec_head_ge : ∀ (vs : List Nat) (v : Nat), Dec (v :: vs) → vs.length ≤ v := by
  intro vs
  induction vs with
  | nil => intro v _; simp
  | cons b t ih => intro v h; have h1 := ih b h.2; have h2 := h.1; simp only [List.length_cons]; omega

/-- the classical bound: the index of a simplex with largest vertex `v` and `k` vertices is below `C(v+1, k)` -/
theorem encode_lt : ∀ (vs : List Nat) (v : Nat), Dec (v :: vs) → encode (v :: vs) < binom (v + 1) (vs.length + 1) := by
  intro vs
  induction vs with
  | nil => intro v _; simp [encode, binom, binom_one]
  | cons b t ih =>
    intro v h
    have h1 := ih b h.2
    have h2 : binom (b + 1) (t.length + 1) ≤ binom v (t.length + 1) := binom_mono _ _ _ h.1
    show binom v (t.length + 1 + 1) + encode (b :: t) < binom (v + 1) (t.length + 1 + 1)
    rw [binom]
    omega

/-- **`get_simplex_vertices ∘ encode = id`** -/
theorem decode_encode : ∀ (vs : List Nat) (top : Nat), Dec vs → (∀ v ∈ vs, v ≤ top) →
    decode vs.length (encode vs) top = vs := by
  intro vs
  induction vs with
  | nil => intro top _ _; rfl
  | cons v vs ih =>
    intro top hdec hle
    cases vs with
    | nil => simp [decode, encode, binom_one]
    | cons b t =>
      have hv : v ≤ top := hle v List.mem_cons_self
      have hk : (b :: t).length ≤ v := dec_head_ge _ v hdec
      simp only [List.length_cons] at hk
      show decode (t.length + 2) (encode (v :: b :: t)) top = v :: b :: t
      rw [decode]
      -- the search finds v
      let pred : Nat → Bool := fun w => decide (binom w (t.length + 2) ≤ encode (v :: b :: t))
      have hmono : ∀ a c, a ≤ c → pred c = true → pred a = true := by
        intro a c hac hc
        simp only [pred, decide_eq_true_eq] at hc ⊢
        exact Nat.le_trans (binom_mono _ _ _ hac) hc
      have hbot : pred (t.length + 1) = true := by
        simp only [pred, decide_eq_true_eq]
        rw [binom_zero_of_lt _ _ (by omega)]; exact Nat.zero_le _
      have hspec := getMax_spec pred hmono top (t.length + 1) (by omega) hbot
      have hpv : pred v = true := by
        simp only [pred, decide_eq_true_eq, encode, List.length_cons, Nat.add_assoc, Nat.reduceAdd]; omega
      have hlt := encode_lt (b :: t) v hdec
      simp only [List.length_cons, Nat.add_assoc, Nat.reduceAdd] at hlt
      have hr : getMax pred top (t.length + 1) = v := by
        obtain ⟨h1, h2, h3⟩ := hspec
        rcases Nat.lt_trichotomy (getMax pred top (t.length + 1)) v with h | h | h
        · have := h3 v h hv; rw [hpv] at this; cases this
        · exact h
        · have h1' : binom (getMax pred top (t.length + 1)) (t.length + 2) ≤ encode (v :: b :: t) :=
            of_decide_eq_true h1
          have := binom_mono (t.length + 2) (v + 1) _ h
          omega
      show getMax pred top (t.length + 1) :: decode (t.length + 1) (encode (v :: b :: t) - binom (getMax pred top (t.length + 1)) (t.length + 2)) (getMax pred top (t.length + 1)) = v :: b :: t
      rw [hr]
      have henc : encode (v :: b :: t) - binom v (t.length + 2) = encode (b :: t) := by
        simp only [encode, List.length_cons, Nat.add_assoc, Nat.reduceAdd]; omega
      rw [henc]
      have := ih v hdec.2 (by
        intro x hx
        rcases List.mem_cons.mp hx with rfl | hx'
        · exact Nat.le_of_lt hdec.1
        · have : Dec (x :: []) := trivial
          -- every later vertex is below b < v
          exact Nat.le_of_lt (Nat.lt_of_le_of_lt (dec_le_head (b :: t) x (List.mem_cons_of_mem _ hx') hdec.2) hdec.1))
      simpa using congrArg (fun l => v :: l) this
  where
  dec_le_head : ∀ (l : List Nat) (x : Nat), x ∈ l → Dec l → x ≤ l.headD 0 := by
    intro l
    induction l with
    | nil => intro x hx; cases hx
    | cons a t ih =>
      intro x hx hd
      rcases List.mem_cons.mp hx with rfl | hx'
      · simp
      · cases t with
        | nil => cases hx'
        | cons c t' =>
          have := ih x hx' hd.2
          simp only [List.headD_cons] at this ⊢
          have := hd.1; omega

#eval encode [5, 3, 0]            -- C(5,3) + C(3,2) + C(0,1) = 13
#eval decode 3 13 9               -- [5, 3, 0]
#print axioms getMax_spec
#print axioms decode_encode
end CnsProto
