/-! Prototype (C12): `Flag_complex_edge_collapser::is_dominated_by` (the merge version): the sorted list of common
    neighbours of the edge is walked against the sorted closed neighbourhood of the candidate `c`; the answer is "every
    neighbour of the edge is a neighbour of `c` at a time ≤ f".  Core Lean only. -/
namespace DomProto

abbrev Val := Int

/-- the merge loop -/
def dom : List Nat → List (Nat × Val) → Val → Bool
  | [], _, _ => true
  | _ :: _, [], _ => false
  | ve :: es, (vc, fc) :: cs, f =>
    if vc < ve then dom (ve :: es) cs f
    else if ve < vc then false
    else if f < fc then false else dom es cs f
termination_by es cs => es.length + cs.length
decreasing_by all_goals simp_wf <;> omega

def IncN : List Nat → Prop
  | [] => True
  | [_] => True
  | a :: b :: t => a < b ∧ IncN (b :: t)

def IncC : List (Nat × Val) → Prop
  | [] => True
  | [_] => True
  | a :: b :: t => a.1 < b.1 ∧ IncC (b :: t)

theorem IncN.tail {a : Nat} {t : List Nat} (h : IncN (a :: t)) : IncN t := by
  cases t with
  | nil => trivial
  | cons b t => exact h.2

theorem IncC.tail {a : Nat × Val} {t : List (Nat × Val)} (h : IncC (a :: t)) : IncC t := by
  cases t with
  | nil => trivial
  | cons b t => exact h.2

theorem IncN.gt_head {a : Nat} {t : List Nat} (h : IncN (a :: t)) : ∀ x ∈ t, a < x := by
  induction t generalizing a with
  | nil => intro x hx; cases hx
  | cons b t ih =>
    intro x hx
    rcases List.mem_cons.mp hx with rfl | hx'
    · exact h.1
    · exact Nat.lt_trans h.1 (ih h.2 x hx')

theorem IncC.gt_head {a : Nat × Val} {t : List (Nat × Val)} (h : IncC (a :: t)) : ∀ x ∈ t, a.1 < x.1 := by
  induction t generalizing a with
  | nil => intro x hx; cases hx
  | cons b t ih =>
    intro x hx
    rcases List.mem_cons.mp hx with rfl | hx'
    · exact h.1
    · exact Nat.lt_trans h.1 (ih h.2 x hx')

/-- `v` is a neighbour of the candidate at a time not later than `f` -/
def nbAt (nc : List (Nat × Val)) (f : Val) (v : Nat) : Prop := ∃ fc, (v, fc) ∈ nc ∧ fc ≤ f

/-- **`is_dominated_by` decides the inclusion of the edge's neighbourhood in the closed neighbourhood of `c` at time `f`** -/
theorem dom_spec : ∀ (en : List Nat) (nc : List (Nat × Val)) (f : Val), IncN en → IncC nc →
    (dom en nc f = true ↔ ∀ v ∈ en, nbAt nc f v) := by
  intro en nc f
  induction en, nc, f using dom.induct with
  | case1 nc f => intro _ _; simp [dom]
  | case2 ve es f =>
    intro _ _
    simp only [dom, Bool.false_eq_true, false_iff]
    intro h
    obtain ⟨fc, hm, _⟩ := h ve List.mem_cons_self
    cases hm
  | case3 ve es vc fc cs f hlt ih =>
    intro he hc
    rw [dom, if_pos hlt, ih he hc.tail]
    constructor
    · intro h v hv
      obtain ⟨g, hm, hle⟩ := h v hv
      exact ⟨g, List.mem_cons_of_mem _ hm, hle⟩
    · intro h v hv
      obtain ⟨g, hm, hle⟩ := h v hv
      rcases List.mem_cons.mp hm with heq | hm'
      · -- v = vc < ve ≤ v : impossible
        exfalso
        have hv1 : v = vc := by cases heq; rfl
        have hge : ve ≤ v := by
          rcases List.mem_cons.mp hv with rfl | hv'
          · exact Nat.le_refl _
          · exact Nat.le_of_lt (he.gt_head v hv')
        omega
      · exact ⟨g, hm', hle⟩
  | case4 ve es vc fc cs f hlt hgt =>
    intro he hc
    rw [dom, if_neg hlt, if_pos hgt]
    simp only [Bool.false_eq_true, false_iff]
    intro h
    obtain ⟨g, hm, _⟩ := h ve List.mem_cons_self
    rcases List.mem_cons.mp hm with heq | hm'
    · have : ve = vc := by cases heq; rfl
      omega
    · have := hc.gt_head (ve, g) hm'
      simp at this; omega
  | case5 ve es vc fc cs f hlt hgt hf =>
    intro he hc
    have heq : ve = vc := by omega
    subst heq
    rw [dom, if_neg hlt, if_neg hgt, if_pos hf]
    simp only [Bool.false_eq_true, false_iff]
    intro h
    obtain ⟨g, hm, hle⟩ := h ve List.mem_cons_self
    rcases List.mem_cons.mp hm with heq | hm'
    · have hg : g = fc := by cases heq; rfl
      rw [hg] at hle
      exact absurd hf (Int.not_lt.mpr hle)
    · have := hc.gt_head (ve, g) hm'
      simp at this
  | case6 ve es vc fc cs f hlt hgt hf ih =>
    intro he hc
    have heq : ve = vc := by omega
    subst heq
    rw [dom, if_neg hlt, if_neg hgt, if_neg hf, ih he.tail hc.tail]
    constructor
    · intro h v hv
      rcases List.mem_cons.mp hv with rfl | hv'
      · exact ⟨fc, List.mem_cons_self, Int.not_lt.mp hf⟩
      · obtain ⟨g, hm, hle⟩ := h v hv'
        exact ⟨g, List.mem_cons_of_mem _ hm, hle⟩
    · intro h v hv
      obtain ⟨g, hm, hle⟩ := h v (List.mem_cons_of_mem _ hv)
      rcases List.mem_cons.mp hm with heq | hm'
      · exfalso
        have : v = ve := by cases heq; rfl
        have := he.gt_head v hv
        omega
      · exact ⟨g, hm', hle⟩

#eval dom [1, 3] [(0, 5), (1, 2), (2, 0), (3, 4)] 4   -- true
#eval dom [1, 3] [(0, 5), (1, 2), (2, 0), (3, 4)] 3   -- false: neighbour 3 only from time 4
#print axioms dom_spec
end DomProto
