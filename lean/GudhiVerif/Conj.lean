import GudhiVerif.Step
import GudhiVerif.Pairing

/-! Prototype (C06): conjugating a factorisation by the transposition of two adjacent positions keeps `R = D·V`, and keeps
    `V` upper triangular exactly when the entry `V a b` that would land below the diagonal is zero; and how the lowest
    entry of a vector moves when two adjacent coordinates are exchanged. -/
open Matrix

variable {n : ℕ} {F : Type*} [Field F]

/-- `b` is the position right after `a` -/
def Adjacent (a b : Fin n) : Prop := b.val = a.val + 1

/-- the matrix with rows and columns `a`, `b` exchanged (`P·M·P`) -/
def conjSwap (a b : Fin n) (M : Matrix (Fin n) (Fin n) F) : Matrix (Fin n) (Fin n) F :=
  M.submatrix (Equiv.swap a b) (Equiv.swap a b)

theorem conjSwap_mul (a b : Fin n) (M N : Matrix (Fin n) (Fin n) F) :
    conjSwap a b (M * N) = conjSwap a b M * conjSwap a b N := by
  unfold conjSwap
  exact (Matrix.submatrix_mul_equiv M N _ (Equiv.swap a b) _).symm

theorem swap_lt_of_lt {a b : Fin n} (hab : Adjacent a b) {x y : Fin n} (hxy : x < y) (hne : ¬ (x = a ∧ y = b)) :
    Equiv.swap a b x < Equiv.swap a b y := by
  unfold Adjacent at hab
  have hxy' : x.val < y.val := hxy
  by_cases hxa : x = a
  · subst hxa
    by_cases hyb : y = b
    · exact absurd ⟨rfl, hyb⟩ hne
    · have hyx : y ≠ x := ne_of_gt hxy
      rw [Equiv.swap_apply_left, Equiv.swap_apply_of_ne_of_ne hyx hyb]
      have : y.val ≠ b.val := fun h => hyb (Fin.ext h)
      show b.val < y.val
      omega
  · by_cases hxb : x = b
    · subst hxb
      have hya : y ≠ a := by intro h; subst h; omega
      have hyx : y ≠ x := ne_of_gt hxy
      rw [Equiv.swap_apply_right, Equiv.swap_apply_of_ne_of_ne hya hyx]
      show a.val < y.val
      omega
    · rw [Equiv.swap_apply_of_ne_of_ne hxa hxb]
      by_cases hya : y = a
      · subst hya
        rw [Equiv.swap_apply_left]
        show x.val < b.val
        omega
      · by_cases hyb : y = b
        · subst hyb
          rw [Equiv.swap_apply_right]
          have : x.val ≠ a.val := fun h => hxa (Fin.ext h)
          show x.val < a.val
          omega
        · rw [Equiv.swap_apply_of_ne_of_ne hya hyb]; exact hxy

/-- conjugation by an adjacent transposition preserves the reduction invariant when `V a b = 0` -/
theorem Fact3.conj {D R V : Matrix (Fin n) (Fin n) F} (h : Fact3 D R V) {a b : Fin n} (hab : Adjacent a b)
    (hz : V a b = 0) : Fact3 (conjSwap a b D) (conjSwap a b R) (conjSwap a b V) := by
  refine ⟨?_, ?_, ?_⟩
  · rw [h.factor, conjSwap_mul]
  · intro x y hyx
    -- hyx : y < x ; entry (x,y) of the conjugate is V (σ x) (σ y)
    show V (Equiv.swap a b x) (Equiv.swap a b y) = 0
    by_cases hc : y = a ∧ x = b
    · obtain ⟨rfl, rfl⟩ := hc
      rw [Equiv.swap_apply_right, Equiv.swap_apply_left]; exact hz
    · exact h.upper (swap_lt_of_lt hab hyx hc)
  · intro x
    show V (Equiv.swap a b x) (Equiv.swap a b x) ≠ 0
    exact h.diag _

open Classical in
/-- exchanging two adjacent coordinates of a vector: where the lowest entry goes -/
theorem isLow_swap {a b : Fin n} (hab : Adjacent a b) (v : Fin n → F) (l : Fin n) (hl : IsLow v l) :
    IsLow (v ∘ Equiv.swap a b) (if l = a then b else if l = b ∧ v a = 0 then a else l) := by
  unfold Adjacent at hab
  by_cases hla : l = a
  · subst hla
    simp only [if_true]
    refine ⟨by simpa using hl.1, fun k hk => ?_⟩
    have hkb : k ≠ b := ne_of_gt hk
    have hkl : k ≠ l := by intro h; subst h; have : b.val < k.val := hk; omega
    simp only [Function.comp, Equiv.swap_apply_of_ne_of_ne hkl hkb]
    exact hl.2 k (by have : b.val < k.val := hk
                     show l.val < k.val
                     omega)
  · simp only [hla, if_false]
    by_cases hlb : l = b
    · subst hlb
      by_cases hva : v a = 0
      · simp only [hva, and_self, if_true]
        refine ⟨by simpa using hl.1, fun k hk => ?_⟩
        by_cases hkl : k = l
        · subst hkl; simpa using hva
        · have hka : k ≠ a := ne_of_gt hk
          simp only [Function.comp, Equiv.swap_apply_of_ne_of_ne hka hkl]
          have : a.val < k.val := hk
          have : k.val ≠ l.val := fun h => hkl (Fin.ext h)
          exact hl.2 k (by show l.val < k.val; omega)
      · simp only [hva, and_false, if_false]
        refine ⟨by simpa using hva, fun k hk => ?_⟩
        have hkl : k ≠ l := ne_of_gt hk
        have hka : k ≠ a := by intro h; subst h; have : l.val < k.val := hk; omega
        simp only [Function.comp, Equiv.swap_apply_of_ne_of_ne hka hkl]
        exact hl.2 k hk
    · simp only [hlb, false_and, if_false]
      refine ⟨by simp only [Function.comp, Equiv.swap_apply_of_ne_of_ne hla hlb]; exact hl.1, fun k hk => ?_⟩
      have hlk : l.val < k.val := hk
      have hlav : l.val ≠ a.val := fun h => hla (Fin.ext h)
      have hlbv : l.val ≠ b.val := fun h => hlb (Fin.ext h)
      by_cases hka : k = a
      · subst hka
        simp only [Function.comp, Equiv.swap_apply_left]
        exact hl.2 b (by show l.val < b.val; omega)
      · by_cases hkb : k = b
        · subst hkb
          simp only [Function.comp, Equiv.swap_apply_right]
          exact hl.2 a (by show l.val < a.val; omega)
        · simp only [Function.comp, Equiv.swap_apply_of_ne_of_ne hka hkb]
          exact hl.2 k hk

#print axioms Fact3.conj
#print axioms isLow_swap
