/-! Prototype (C13): `compute_counter_for_given_cell` / `compute_position_in_bitmap` of the cubical complex are inverse
    bijections between flat indices and mixed-radix counters.  Core Lean only.
    Lists are in the order in which the C++ loop of `compute_counter_for_given_cell` runs: from the last direction down
    (`multipliers[d-1] … multipliers[1]`; `multipliers[0] = 1` is split out exactly as in the source). -/
namespace CounterProto

/-- the loop `for (dim = d; dim > 1; --dim) { quot = cell / m[dim-1]; cell %= m[dim-1]; push(quot) }; push(cell)`
    (before the final `std::reverse`) -/
def counterRev : List Nat → Nat → List Nat
  | [], cell => [cell]
  | m :: ms, cell => (cell / m) :: counterRev ms (cell % m)

/-- `position = Σ multipliers[i] * counter[i]`, summed in the same (reversed) order; `multipliers[0] = 1` -/
def posRev : List Nat → List Nat → Nat
  | [], [c] => c
  | m :: ms, c :: cs => m * c + posRev ms cs
  | _, _ => 0

theorem counterRev_length (ms : List Nat) (cell : Nat) : (counterRev ms cell).length = ms.length + 1 := by
  induction ms generalizing cell with
  | nil => rfl
  | cons m ms ih => simp [counterRev, ih]

/-- every flat index is the position of its counter (no bound needed: the top digit absorbs everything) -/
theorem pos_counter (ms : List Nat) (cell : Nat) : posRev ms (counterRev ms cell) = cell := by
  induction ms generalizing cell with
  | nil => rfl
  | cons m ms ih =>
    simp only [counterRev, posRev, ih]
    exact Nat.div_add_mod cell m

/-- multipliers built from the radices `r_i = 2·sizes[i] + 1` (periodic directions: `2·sizes[i]`), top first:
    `m_{d-1} = r_0 ⋯ r_{d-2}`, …, `m_1 = r_0`; argument: radices `r_{d-2}, …, r_0` -/
def multsRev : List Nat → List Nat
  | [] => []
  | r :: rs => (r * (multsRev rs).headD 1) :: multsRev rs

/-- digits below their radix: `c_{d-2} < r_{d-2}, …, c_0 < r_0` (the top digit `c_{d-1}` is unconstrained here; its
    bound `c_{d-1} < r_{d-1}` is the bound `cell < total`) -/
def Below : List Nat → List Nat → Prop
  | [], [_] => True
  | r :: rs, _ :: c :: cs => c < r ∧ Below rs (c :: cs)
  | _, _ => False

/-- the low part of a position is below the multiplier of the next digit -/
theorem low_lt : ∀ (rs : List Nat) (c : Nat) (cs : List Nat), Below rs (c :: cs) →
    posRev (multsRev rs) (c :: cs) < ((multsRev rs).headD 1) * (c + 1) := by
  intro rs
  induction rs with
  | nil =>
    intro c cs h
    cases cs with
    | nil => simp [multsRev, posRev]
    | cons _ _ => simp [Below] at h
  | cons r rs ih =>
    intro c cs h
    cases cs with
    | nil => simp [Below] at h
    | cons c1 cs1 =>
      obtain ⟨h1, h2⟩ := h
      have := ih c1 cs1 h2
      simp only [multsRev, posRev, List.headD_cons]
      -- posRev (multsRev rs) (c1 :: cs1) < M * (c1 + 1) ≤ M * r
      have hM : (multsRev rs).headD 1 * (c1 + 1) ≤ (multsRev rs).headD 1 * r := Nat.mul_le_mul_left _ (by omega)
      have e : r * (multsRev rs).headD 1 * (c + 1) = r * (multsRev rs).headD 1 * c + (multsRev rs).headD 1 * r := by
        rw [Nat.mul_add, Nat.mul_one, Nat.mul_comm r]
      rw [e]
      omega

/-- a counter with digits below their radices is the counter of its position -/
theorem counter_pos : ∀ (rs : List Nat) (c : Nat) (cs : List Nat), Below rs (c :: cs) →
    counterRev (multsRev rs) (posRev (multsRev rs) (c :: cs)) = c :: cs := by
  intro rs
  induction rs with
  | nil =>
    intro c cs h
    cases cs with
    | nil => rfl
    | cons _ _ => simp [Below] at h
  | cons r rs ih =>
    intro c cs h
    cases cs with
    | nil => simp [Below] at h
    | cons c1 cs1 =>
      obtain ⟨h1, h2⟩ := h
      have hlow := low_lt rs c1 cs1 h2
      have hlt : posRev (multsRev rs) (c1 :: cs1) < r * (multsRev rs).headD 1 := by
        have hM : (multsRev rs).headD 1 * (c1 + 1) ≤ (multsRev rs).headD 1 * r := Nat.mul_le_mul_left _ (by omega)
        rw [Nat.mul_comm r]; omega
      have hpos : 0 < r * (multsRev rs).headD 1 := by omega
      simp only [multsRev, posRev, counterRev]
      have hdiv : (r * (multsRev rs).headD 1 * c + posRev (multsRev rs) (c1 :: cs1)) / (r * (multsRev rs).headD 1) = c := by
        rw [Nat.mul_comm _ c, Nat.add_comm, Nat.add_mul_div_right _ _ hpos, Nat.div_eq_of_lt hlt, Nat.zero_add]
      have hmod : (r * (multsRev rs).headD 1 * c + posRev (multsRev rs) (c1 :: cs1)) % (r * (multsRev rs).headD 1)
          = posRev (multsRev rs) (c1 :: cs1) := by
        rw [Nat.mul_comm _ c, Nat.add_comm, Nat.add_mul_mod_self_right, Nat.mod_eq_of_lt hlt]
      rw [hdiv, hmod, ih c1 cs1 h2]

-- 3 directions with radices 3, 5, 7 (sizes 1, 2, 3): multipliers 15, 3 (and 1)
#eval multsRev [5, 3]
#eval counterRev (multsRev [5, 3]) 52     -- [3, 2, 1] : 52 = 3·15 + 2·3 + 1
#eval posRev (multsRev [5, 3]) [3, 2, 1]  -- 52

#print axioms pos_counter
#print axioms counter_pos
end CounterProto
