/-! Prototype: Z_p sparse column `a + c·b` by ordered merge (the shape of `_generic_add_to_column`),
    with the coefficient-wise specification. Core Lean only. -/
namespace AxpyProto

abbrev Col := List (Nat × Nat)   -- (row, coefficient), rows strictly increasing, coefficients in [1,p)

/-- coefficient of row `i` -/
def coeff : Col → Nat → Nat
  | [], _ => 0
  | (r, x) :: t, i => if r = i then x else coeff t i

/-- rows strictly increasing and all rows > bound (bound = none: no constraint) -/
def Sorted : Col → Prop
  | [] => True
  | [_] => True
  | (r, _) :: (r', x') :: t => r < r' ∧ Sorted ((r', x') :: t)

theorem Sorted.tail {h : Nat × Nat} {t : Col} (hs : Sorted (h :: t)) : Sorted t := by
  cases t with
  | nil => trivial
  | cons h' t' => obtain ⟨r, x⟩ := h; obtain ⟨r', x'⟩ := h'; exact hs.2

theorem coeff_of_lt {r x : Nat} {t : Col} (hs : Sorted ((r, x) :: t)) {i : Nat} (hi : i < r) :
    coeff ((r, x) :: t) i = 0 := by
  induction t generalizing r x with
  | nil => simp [coeff]; omega
  | cons h t ih =>
    obtain ⟨r', x'⟩ := h
    have h1 : r < r' := hs.1
    have : coeff ((r', x') :: t) i = 0 := ih hs.2 (by omega)
    simp only [coeff] at this ⊢
    rw [if_neg (by omega)]; exact this

theorem coeff_tail_of_le {r x : Nat} {t : Col} (hs : Sorted ((r, x) :: t)) {i : Nat} (hi : i ≤ r) :
    coeff t i = 0 := by
  cases t with
  | nil => rfl
  | cons h t' =>
    obtain ⟨r', x'⟩ := h
    exact coeff_of_lt hs.2 (by have := hs.1; omega)

/-- push an entry unless its coefficient is zero (`_delete_entry` when the sum cancels) -/
def consNZ (r x : Nat) (t : Col) : Col := if x = 0 then t else (r, x) :: t

theorem coeff_consNZ (r x : Nat) (t : Col) (i : Nat) (ht : r = i → coeff t i = 0) :
    coeff (consNZ r x t) i = if r = i then x else coeff t i := by
  unfold consNZ
  split
  · rename_i h0; split
    · rename_i hri; rw [ht hri, h0]
    · rfl
  · simp [coeff]

/-- target ← target + c·source (mod p), ordered merge -/
def axpy (p c : Nat) : Col → Col → Col
  | [], [] => []
  | (r, x) :: a, [] => (r, x) :: a
  | [], (s, y) :: b => consNZ s ((c * y) % p) (axpy p c [] b)
  | (r, x) :: a, (s, y) :: b =>
    if r < s then (r, x) :: axpy p c a ((s, y) :: b)
    else if s < r then consNZ s ((c * y) % p) (axpy p c ((r, x) :: a) b)
    else consNZ r ((x + c * y) % p) (axpy p c a b)
termination_by a b => a.length + b.length
decreasing_by all_goals simp_wf <;> omega

theorem coeff_axpy (p c : Nat) (a b : Col) (ha : Sorted a) (hb : Sorted b)
    (hax : ∀ e ∈ a, e.2 < p) (i : Nat) :
    coeff (axpy p c a b) i = (coeff a i + c * coeff b i) % p := by
  induction a, b using axpy.induct with
  | case1 => simp [axpy, coeff]
  | case2 r x a =>
    simp only [axpy, coeff, Nat.mul_zero, Nat.add_zero]
    -- coefficients of `a` are already reduced
    have : ∀ (l : Col), (∀ e ∈ l, e.2 < p) → coeff l i % p = coeff l i := by
      intro l hl
      induction l with
      | nil => simp [coeff]
      | cons h t ih =>
        obtain ⟨r', x'⟩ := h
        simp only [coeff]
        split
        · exact Nat.mod_eq_of_lt (hl (r', x') (List.mem_cons_self))
        · exact ih (fun e he => hl e (List.mem_cons_of_mem _ he))
    exact (this ((r, x) :: a) hax).symm
  | case3 s y b ih =>
    rw [axpy, coeff_consNZ]
    · rw [ih trivial hb.tail (by simp)]
      simp only [coeff, Nat.zero_add]
      split
      · rfl
      · rfl
    · intro hsi
      rw [ih trivial hb.tail (by simp)]
      simp only [coeff, Nat.zero_add]
      rw [coeff_tail_of_le hb (by omega)]; simp
  | case4 r x a s y b hlt ih =>
    rw [axpy]; simp only [hlt, if_true, coeff]
    have hax' : ∀ e ∈ a, e.2 < p := fun e he => hax e (List.mem_cons_of_mem _ he)
    split
    · rename_i hri
      have hb0 : coeff ((s, y) :: b) i = 0 := coeff_of_lt hb (by omega)
      simp only [coeff] at hb0
      rw [hb0]; simp
      exact (Nat.mod_eq_of_lt (hax (r, x) List.mem_cons_self)).symm
    · exact ih ha.tail hb hax'
  | case5 r x a s y b hlt hgt ih =>
    rw [axpy]; simp only [hlt, hgt, if_false, if_true]
    rw [coeff_consNZ]
    · rw [ih ha hb.tail hax]
      simp only [coeff]
      split
      · rename_i hsi
        have ha0 : coeff ((r, x) :: a) i = 0 := coeff_of_lt ha (by omega)
        simp only [coeff] at ha0
        rw [ha0]; simp
      · rfl
    · intro hsi
      rw [ih ha hb.tail hax]
      have ha0 : coeff ((r, x) :: a) i = 0 := coeff_of_lt ha (by omega)
      rw [ha0, coeff_tail_of_le hb (by omega)]; simp
  | case6 r x a s y b hlt hgt ih =>
    have hrs : r = s := by omega
    subst hrs
    have hax' : ∀ e ∈ a, e.2 < p := fun e he => hax e (List.mem_cons_of_mem _ he)
    rw [axpy]; simp only [Nat.lt_irrefl, if_false]
    rw [coeff_consNZ]
    · rw [ih ha.tail hb.tail hax']
      simp only [coeff]
      split
      · rfl
      · rfl
    · intro hri
      rw [ih ha.tail hb.tail hax', coeff_tail_of_le ha (by omega), coeff_tail_of_le hb (by omega)]; simp

#print axioms coeff_axpy
end AxpyProto
