import GudhiVerif.CubPeriodic3
/-! # C13 — lower-star values and faces-first order, periodic directions included -/
namespace CubBridge
open CubModel

/-- a face differs from the cell in exactly one digit: an odd digit moved one step down, or one step up modulo the radix -/
theorem face_digits_gen (sh : Shape) (hr : ∀ i, i < sh.dims → 0 < sh.radix i) (b : Bool) (pos f : Nat)
    (hpos : pos < sh.total) (hf : f ∈ sh.boundary b pos) :
    ∃ i, i < sh.dims ∧ sh.digit pos i % 2 = 1 ∧
      (sh.digit f i = sh.digit pos i - 1 ∨ sh.digit f i = (sh.digit pos i + 1) % sh.radix i) ∧
      ∀ j, j < sh.dims → j ≠ i → sh.digit f j = sh.digit pos j := by
  rw [mem_boundary_gen] at hf
  obtain ⟨i, hi, hodd, hcase⟩ := hf
  have hd : sh.digit pos i < sh.radix i := Nat.mod_lt _ (hr i hi)
  obtain ⟨d0, hd0⟩ : ∃ d0, sh.digit pos i = d0 + 1 := ⟨sh.digit pos i - 1, by omega⟩
  refine ⟨i, hi, hodd, ?_⟩
  rcases hcase with rfl | hhi
  · obtain ⟨y, hy, _, hdig⟩ := digit_change sh hr pos hpos i hi (sh.digit pos i - 1) (by omega)
    have hy' : y = pos - sh.mult i := by
      rw [hd0] at hy; simp only [Nat.add_sub_cancel, Nat.add_mul, Nat.one_mul] at hy; omega
    rw [← hy']
    exact ⟨Or.inl (by simpa [upd] using hdig i hi), fun j hj hne => by simpa [upd, hne] using hdig j hj⟩
  · unfold hiOf at hhi
    by_cases hw : (sh.isPer i && sh.digit pos i == 2 * sh.size i - 1) = true
    · rw [if_pos hw] at hhi
      have hp : sh.isPer i = true := by simp at hw; exact hw.1
      have hl : sh.digit pos i = 2 * sh.size i - 1 := by simp at hw; exact hw.2
      have hrad : sh.radix i = 2 * sh.size i := by
        rcases radix_cases sh i with ⟨_, h⟩ | ⟨h, _⟩
        · exact h
        · rw [hp] at h; exact absurd h (by simp)
      obtain ⟨y, hy, _, hdig⟩ := digit_change sh hr pos hpos i hi 0 (hr i hi)
      have hy' : y = f := by rw [hhi]; rw [hl] at hy; simp only [Nat.zero_mul, Nat.add_zero] at hy; omega
      subst hy'
      refine ⟨Or.inr ?_, fun j hj hne => by simpa [upd, hne] using hdig j hj⟩
      have h0 : sh.digit y i = 0 := by simpa [upd] using hdig i hi
      rw [h0, hrad, hl]
      have : 2 * sh.size i - 1 + 1 = 2 * sh.size i := by omega
      rw [this, Nat.mod_self]
    · rw [if_neg hw] at hhi
      have hlt : sh.digit pos i + 1 < sh.radix i := by
        rcases radix_cases sh i with ⟨hp, hrad⟩ | ⟨hp, hrad⟩
        · have : ¬ sh.digit pos i = 2 * sh.size i - 1 := by
            intro e; apply hw; simp [hp, e]
          omega
        · omega
      obtain ⟨y, hy, _, hdig⟩ := digit_change sh hr pos hpos i hi (sh.digit pos i + 1) hlt
      have hy' : y = f := by rw [hhi]; simp only [Nat.add_mul, Nat.one_mul] at hy; omega
      subst hy'
      refine ⟨Or.inr ?_, fun j hj hne => by simpa [upd, hne] using hdig j hj⟩
      rw [Nat.mod_eq_of_lt hlt]; simpa [upd] using hdig i hi

/-- **minimum over the top cells**, any shape (sides of non-periodic directions with at least one top cell) -/
theorem valueTop_mono_gen (sh : Shape) (hr : ∀ i, i < sh.dims → 0 < sh.radix i)
    (hsz : ∀ i, i < sh.dims → 0 < sh.size i) (b : Bool)
    (vals : List Int) (pos f : Nat) (hpos : pos < sh.total) (hf : f ∈ sh.boundary b pos) :
    sh.valueTop vals f ≤ sh.valueTop vals pos := by
  obtain ⟨i, hi, hodd, hfi, hfj⟩ := face_digits_gen sh hr b pos f hpos hf
  have hd : sh.digit pos i < sh.radix i := Nat.mod_lt _ (hr i hi)
  have hsub : ∀ j, j < sh.dims → ∀ x ∈ sh.topDigits pos j, x ∈ sh.topDigits f j := by
    intro j hj x hx
    by_cases e : j = i
    · subst e
      simp only [Shape.topDigits, hodd, if_true, List.mem_singleton] at hx
      subst hx
      rcases radix_cases sh j with ⟨hp, hrad⟩ | ⟨hp, hrad⟩
      · -- periodic direction
        rcases hfi with h | h
        · have he : sh.digit f j % 2 ≠ 1 := by omega
          simp only [Shape.topDigits, he, if_false, hp, if_true]
          simp; omega
        · by_cases hl : sh.digit pos j + 1 = sh.radix j
          · have h0 : sh.digit f j = 0 := by rw [h, hl, Nat.mod_self]
            simp only [Shape.topDigits, h0, hp]
            simp; omega
          · have hlt : sh.digit pos j + 1 < sh.radix j := by omega
            have hv : sh.digit f j = sh.digit pos j + 1 := by rw [h, Nat.mod_eq_of_lt hlt]
            have he : sh.digit f j % 2 ≠ 1 := by omega
            have h0 : sh.digit f j ≠ 0 := by omega
            simp only [Shape.topDigits, he, if_false, hp, if_true, h0]
            simp; omega
      · have hlt : sh.digit pos j + 1 < sh.radix j := by omega
        rcases hfi with h | h
        · have he : sh.digit f j % 2 ≠ 1 := by omega
          have h1 : sh.digit f j + 1 < sh.radix j := by omega
          simp only [Shape.topDigits, hp, he, if_false, h1, if_true, Bool.false_eq_true]
          simp; omega
        · have hv : sh.digit f j = sh.digit pos j + 1 := by rw [h, Nat.mod_eq_of_lt hlt]
          have he : sh.digit f j % 2 ≠ 1 := by omega
          have h0 : sh.digit f j ≠ 0 := by omega
          simp only [Shape.topDigits, hp, he, if_false, h0, Bool.false_eq_true]
          simp; omega
    · simpa [Shape.topDigits, hfj j hj e] using hx
  have hne : ∀ l ∈ (List.range sh.dims).map (sh.topDigits pos), l ≠ [] := by
    intro l hl
    simp only [List.mem_map, List.mem_range] at hl
    obtain ⟨j, hj, rfl⟩ := hl
    have hs := hsz j hj
    by_cases ho : sh.digit pos j % 2 = 1
    · simp [Shape.topDigits, ho]
    · rcases radix_cases sh j with ⟨hp, hrad⟩ | ⟨hp, hrad⟩
      · simp [Shape.topDigits, ho, hp]
      · by_cases h0 : sh.digit pos j = 0
        · have : sh.digit pos j + 1 < sh.radix j := by omega
          simp [Shape.topDigits, hp, h0]
          omega
        · simp [Shape.topDigits, ho, hp, h0]
  simp only [Shape.valueTop]
  apply minList_anti
  · intro e
    exact cartesian_ne_nil _ hne (List.map_eq_nil_iff.mp e)
  · intro x hx
    simp only [List.mem_map] at hx ⊢
    obtain ⟨c, hc, rfl⟩ := hx
    exact ⟨c, cartesian_sub _ _ (forall₂_map_range _ _ _ hsub) c hc, rfl⟩

/-- **maximum over the vertices**, any shape -/
theorem valueVert_mono_gen (sh : Shape) (hr : ∀ i, i < sh.dims → 0 < sh.radix i) (b : Bool)
    (vals : List Int) (pos f : Nat) (hpos : pos < sh.total) (hf : f ∈ sh.boundary b pos) :
    sh.valueVert vals f ≤ sh.valueVert vals pos := by
  obtain ⟨i, hi, hodd, hfi, hfj⟩ := face_digits_gen sh hr b pos f hpos hf
  have hd : sh.digit pos i < sh.radix i := Nat.mod_lt _ (hr i hi)
  have hsub : ∀ j, j < sh.dims → ∀ x ∈ sh.vertDigits f j, x ∈ sh.vertDigits pos j := by
    intro j hj x hx
    by_cases e : j = i
    · subst e
      have hne1 : ¬ sh.digit pos j % 2 = 0 := by omega
      rcases hfi with h | h
      · have he : sh.digit f j % 2 = 0 := by omega
        simp only [Shape.vertDigits, he, if_true, List.mem_singleton] at hx
        subst hx
        simp [Shape.vertDigits, hne1, h]
      · by_cases hl : sh.digit pos j + 1 = sh.radix j
        · have h0 : sh.digit f j = 0 := by rw [h, hl, Nat.mod_self]
          simp only [Shape.vertDigits, h0] at hx
          simp at hx; subst hx
          simp [Shape.vertDigits, hne1, hl]
        · have hlt : sh.digit pos j + 1 < sh.radix j := by omega
          have hv : sh.digit f j = sh.digit pos j + 1 := by rw [h, Nat.mod_eq_of_lt hlt]
          have he : sh.digit f j % 2 = 0 := by omega
          simp only [Shape.vertDigits, he, if_true, List.mem_singleton] at hx
          subst hx
          simp [Shape.vertDigits, hne1, hl, hv]
    · simpa [Shape.vertDigits, hfj j hj e] using hx
  have hne : ∀ l ∈ (List.range sh.dims).map (sh.vertDigits f), l ≠ [] := by
    intro l hl
    simp only [List.mem_map, List.mem_range] at hl
    obtain ⟨j, hj, rfl⟩ := hl
    by_cases ho : sh.digit f j % 2 = 0 <;> simp [Shape.vertDigits, ho]
  simp only [Shape.valueVert]
  apply maxList_mono
  · intro e
    exact cartesian_ne_nil _ hne (List.map_eq_nil_iff.mp e)
  · intro x hx
    simp only [List.mem_map] at hx ⊢
    obtain ⟨c, hc, rfl⟩ := hx
    exact ⟨c, cartesian_sub _ _ (forall₂_map_range _ _ _ hsub) c hc, rfl⟩

/-- **faces first**, any shape, either class, any lower-star value function -/
theorem order_faces_first_gen (sh : Shape) (hr : ∀ i, i < sh.dims → 0 < sh.radix i) (b : Bool) (value : Nat → Int)
    (hmono : ∀ pos f, pos < sh.total → f ∈ sh.boundary b pos → value f ≤ value pos)
    (i j : Nat) (hi : i < (sh.order value).length) (hj : j < (sh.order value).length)
    (hb : (sh.order value)[j] ∈ sh.boundary b (sh.order value)[i]) : j < i := by
  have hlen : (sh.order value).length = (triples sh value).length := by rw [order_eq, List.length_map]
  have hi' : i < (triples sh value).length := by omega
  have hj' : j < (triples sh value).length := by omega
  have ei : (sh.order value)[i] = ((triples sh value)[i]).2.2 := by simp [order_eq]
  have ej : (sh.order value)[j] = ((triples sh value)[j]).2.2 := by simp [order_eq]
  obtain ⟨fi, hti⟩ := triples_form sh value _ (List.getElem_mem hi')
  obtain ⟨fj, _⟩ := triples_form sh value _ (List.getElem_mem hj')
  rw [ei, ej] at hb
  have hdim := (boundary_face_all sh hr b _ hti _ hb).2
  have hval := hmono _ _ hti hb
  have h1 : ((triples sh value)[i]).1 = value ((triples sh value)[i]).2.2 := by rw [fi]
  have h2 : ((triples sh value)[j]).1 = value ((triples sh value)[j]).2.2 := by rw [fj]
  have d1 : ((triples sh value)[i]).2.1 = sh.dimOf ((triples sh value)[i]).2.2 := by rw [fi]
  have d2 : ((triples sh value)[j]).2.1 = sh.dimOf ((triples sh value)[j]).2.2 := by rw [fj]
  by_cases hlt : j < i
  · exact hlt
  · exfalso
    have hne : i ≠ j := by
      intro e; subst e; omega
    have hs := (List.pairwise_iff_getElem.mp (triples_sorted sh value)) i j hi' hj' (by omega)
    rw [leCell_iff] at hs
    omega

/-- faces first for top-cell input and for vertex input, every shape, both classes -/
theorem order_faces_first_top_gen (sh : Shape) (hr : ∀ i, i < sh.dims → 0 < sh.radix i)
    (hsz : ∀ i, i < sh.dims → 0 < sh.size i) (b : Bool) (vals : List Int) (i j : Nat)
    (hi : i < (sh.order (sh.valueTop vals)).length) (hj : j < (sh.order (sh.valueTop vals)).length)
    (hb : (sh.order (sh.valueTop vals))[j] ∈ sh.boundary b (sh.order (sh.valueTop vals))[i]) : j < i :=
  order_faces_first_gen sh hr b _ (fun pos f hpos hf => valueTop_mono_gen sh hr hsz b vals pos f hpos hf) i j hi hj hb

theorem order_faces_first_vert_gen (sh : Shape) (hr : ∀ i, i < sh.dims → 0 < sh.radix i) (b : Bool) (vals : List Int)
    (i j : Nat) (hi : i < (sh.order (sh.valueVert vals)).length) (hj : j < (sh.order (sh.valueVert vals)).length)
    (hb : (sh.order (sh.valueVert vals))[j] ∈ sh.boundary b (sh.order (sh.valueVert vals))[i]) : j < i :=
  order_faces_first_gen sh hr b _ (fun pos f hpos hf => valueVert_mono_gen sh hr b vals pos f hpos hf) i j hi hj hb

end CubBridge
