import GudhiVerif.ChainCert
import Mathlib.LinearAlgebra.Matrix.RowCol

/-! Prototype (C05/C07, chain flavour): the invariants of the chain matrix are preserved by the insertion of a cell.
    At matrix level the insertion is: reduce the boundary of the new cell `j` by `G` columns (recorded in `β`: the new
    column is `e_j − Σ β_h C_h`) until what remains is a combination `Σ γ_f C_f` of unpaired cycles; if nothing remains the
    new column is a cycle (birth), otherwise the youngest `F` column involved is replaced by that combination and paired
    with `j`.  `chain_cert` then identifies the pairing with the reference. -/
open Matrix Finset

variable {n : ℕ} {F : Type*} [Field F]

structure ChainInv (D C : Matrix (Fin n) (Fin n) F) (t : ℕ) (partner : Fin n → Option (Fin n)) : Prop where
  upper : C.BlockTriangular id
  diag : ∀ i, C i i ≠ 0
  cyc : ∀ k, partner k = none → k.val < t → colv (D * C) k = 0
  pair : ∀ k g, partner k = some g → k.val < t ∧ g.val < t ∧ colv (D * C) k = colv C g
  inj : ∀ k k' g, partner k = some g → partner k' = some g → k = k'
  later : ∀ k, t ≤ k.val → partner k = none

theorem colv_mul_updateCol (D C : Matrix (Fin n) (Fin n) F) (j : Fin n) (v : Fin n → F) (k : Fin n) :
    colv (D * C.updateCol j v) k = if k = j then D *ᵥ v else colv (D * C) k := by
  rw [Matrix.mul_updateCol]
  funext i
  simp only [colv, Matrix.updateCol_apply]
  split <;> rfl

theorem colv_updateCol (C : Matrix (Fin n) (Fin n) F) (j : Fin n) (v : Fin n → F) (k : Fin n) :
    colv (C.updateCol j v) k = if k = j then v else colv C k := by
  funext i
  simp only [colv, Matrix.updateCol_apply]
  split <;> rfl

/-- the new column `e_j − C β` keeps the matrix upper triangular with a unit on the diagonal -/
theorem newcol_upper {C : Matrix (Fin n) (Fin n) F} (hU : C.BlockTriangular id) (j : Fin n) (β : Fin n → F)
    (hβ : ∀ h, β h ≠ 0 → h.val < j.val) :
    (∀ i, j < i → (Pi.single j 1 - C *ᵥ β : Fin n → F) i = 0) ∧ (Pi.single j 1 - C *ᵥ β : Fin n → F) j = 1 := by
  have hsum : ∀ i, j ≤ i → (C *ᵥ β) i = 0 := by
    intro i hi
    simp only [Matrix.mulVec, dotProduct]
    apply Finset.sum_eq_zero
    intro h _
    by_cases hb : β h = 0
    · simp [hb]
    · have : h < i := lt_of_lt_of_le (Fin.lt_def.mpr (hβ h hb)) hi
      have : C i h = 0 := hU this
      simp [this]
  constructor
  · intro i hi
    simp [Pi.single_eq_of_ne (ne_of_gt hi), hsum i (le_of_lt hi)]
  · simp [hsum j (le_refl j)]

/-- **creator**: nothing remains of the boundary after the reduction by `G` columns ⇒ the new column is a cycle -/
theorem chain_creator {D C : Matrix (Fin n) (Fin n) F} {j : Fin n} {partner : Fin n → Option (Fin n)}
    (h : ChainInv D C j.val partner) (β : Fin n → F) (hβ : ∀ h, β h ≠ 0 → h.val < j.val)
    (hdec : D *ᵥ (Pi.single j 1 - C *ᵥ β) = 0) :
    ChainInv D (C.updateCol j (Pi.single j 1 - C *ᵥ β)) (j.val + 1) partner := by
  classical
  obtain ⟨hup, hone⟩ := newcol_upper h.upper j β hβ
  refine ⟨?_, ?_, ?_, ?_, h.inj, ?_⟩
  · intro x y hyx
    simp only [Matrix.updateCol_apply]
    split
    · rename_i hy; subst hy; exact hup x hyx
    · exact h.upper hyx
  · intro i
    simp only [Matrix.updateCol_apply]
    split
    · rename_i hi; subst hi; rw [hone]; exact one_ne_zero
    · exact h.diag i
  · intro k hk hlt
    rw [colv_mul_updateCol]
    split
    · exact hdec
    · rename_i hkj
      have : k.val ≠ j.val := fun e => hkj (Fin.ext e)
      exact h.cyc k hk (by omega)
  · intro k g hkg
    obtain ⟨h1, h2, h3⟩ := h.pair k g hkg
    have hkj : k ≠ j := fun e => by rw [e] at h1; exact lt_irrefl _ h1
    have hgj : g ≠ j := fun e => by rw [e] at h2; exact lt_irrefl _ h2
    refine ⟨by omega, by omega, ?_⟩
    rw [colv_mul_updateCol, if_neg hkj, colv_updateCol, if_neg hgj]; exact h3
  · intro k hk; exact h.later k (by omega)

/-- **destroyer**: the remainder is a combination `C γ` of unpaired cycles; the youngest one `fs` is replaced by the
    combination and paired with `j` -/
theorem chain_destroyer {D C : Matrix (Fin n) (Fin n) F} (hDD : D * D = 0) {j : Fin n}
    {partner : Fin n → Option (Fin n)} (h : ChainInv D C j.val partner)
    (β γ : Fin n → F) (hβ : ∀ h, β h ≠ 0 → h.val < j.val)
    (hdec : D *ᵥ (Pi.single j 1 - C *ᵥ β) = C *ᵥ γ)
    (fs : Fin n) (hfs : γ fs ≠ 0) (hmax : ∀ f, fs < f → γ f = 0)
    (hfsj : fs.val < j.val) (hfsF : partner fs = none) (hfsG : ∀ k, partner k ≠ some fs) :
    ChainInv D ((C.updateCol j (Pi.single j 1 - C *ᵥ β)).updateCol fs (C *ᵥ γ)) (j.val + 1)
      (Function.update partner j (some fs)) := by
  classical
  obtain ⟨hup, hone⟩ := newcol_upper h.upper j β hβ
  have hfj : fs ≠ j := fun e => by rw [e] at hfsj; exact lt_irrefl _ hfsj
  have hjf : j ≠ fs := fun e => hfj e.symm
  -- the combination C γ has its leading cell at fs
  have hγup : ∀ i, fs < i → (C *ᵥ γ) i = 0 := by
    intro i hi
    simp only [Matrix.mulVec, dotProduct]
    apply Finset.sum_eq_zero
    intro f _
    by_cases hf : f ≤ fs
    · have : C i f = 0 := h.upper (lt_of_le_of_lt hf hi)
      simp [this]
    · simp [hmax f (not_le.mp hf)]
  have hγdiag : (C *ᵥ γ) fs = C fs fs * γ fs := by
    simp only [Matrix.mulVec, dotProduct]
    apply Finset.sum_eq_single fs
    · intro f _ hf
      rcases lt_or_gt_of_ne hf with hlt | hgt
      · have : C fs f = 0 := h.upper hlt
        simp [this]
      · simp [hmax f hgt]
    · intro hh; exact absurd (Finset.mem_univ fs) hh
  have hDDv : D *ᵥ (C *ᵥ γ) = 0 := by
    rw [← hdec, Matrix.mulVec_mulVec, hDD, Matrix.zero_mulVec]
  refine ⟨?_, ?_, ?_, ?_, ?_, ?_⟩
  · intro x y hyx
    simp only [Matrix.updateCol_apply]
    by_cases hy : y = fs
    · simp only [hy, if_true]; exact hγup x (by rw [← hy]; exact hyx)
    · simp only [hy, if_false]
      by_cases hyj : y = j
      · simp only [hyj, if_true]; exact hup x (by rw [← hyj]; exact hyx)
      · simp only [hyj, if_false]; exact h.upper hyx
  · intro i
    simp only [Matrix.updateCol_apply]
    by_cases hi : i = fs
    · simp only [hi, if_true]; rw [hγdiag]; exact mul_ne_zero (h.diag fs) hfs
    · simp only [hi, if_false]
      by_cases hij : i = j
      · simp only [hij, if_true]; rw [hone]; exact one_ne_zero
      · simp only [hij, if_false]; exact h.diag i
  · intro k hk hlt
    have hkj : k ≠ j := by
      intro e; rw [e, Function.update_self] at hk; cases hk
    rw [Function.update_of_ne hkj] at hk
    have hkv : k.val ≠ j.val := fun e => hkj (Fin.ext e)
    rw [colv_mul_updateCol]
    split
    · exact hDDv
    · rw [colv_mul_updateCol, if_neg hkj]
      exact h.cyc k hk (by omega)
  · intro k g hkg
    by_cases hkj : k = j
    · subst hkj
      rw [Function.update_self] at hkg
      cases hkg
      refine ⟨by omega, by omega, ?_⟩
      rw [colv_mul_updateCol, if_neg hjf, colv_mul_updateCol, if_pos rfl, colv_updateCol, if_pos rfl]
      exact hdec
    · rw [Function.update_of_ne hkj] at hkg
      obtain ⟨h1, h2, h3⟩ := h.pair k g hkg
      have hgj : g ≠ j := fun e => by rw [e] at h2; exact lt_irrefl _ h2
      have hkf : k ≠ fs := fun e => by rw [e, hfsF] at hkg; cases hkg
      have hgf : g ≠ fs := fun e => hfsG k (e ▸ hkg)
      refine ⟨by omega, by omega, ?_⟩
      rw [colv_mul_updateCol, if_neg hkf, colv_mul_updateCol, if_neg hkj, colv_updateCol, if_neg hgf,
        colv_updateCol, if_neg hgj]
      exact h3
  · intro k k' g hk hk'
    by_cases hkj : k = j
    · by_cases hk'j : k' = j
      · rw [hkj, hk'j]
      · exfalso
        rw [hkj, Function.update_self] at hk; cases hk
        rw [Function.update_of_ne hk'j] at hk'
        exact hfsG k' hk'
    · by_cases hk'j : k' = j
      · exfalso
        rw [hk'j, Function.update_self] at hk'; cases hk'
        rw [Function.update_of_ne hkj] at hk
        exact hfsG k hk
      · rw [Function.update_of_ne hkj] at hk; rw [Function.update_of_ne hk'j] at hk'
        exact h.inj k k' g hk hk'
  · intro k hk
    have hkj : k ≠ j := fun e => by rw [e] at hk; omega
    rw [Function.update_of_ne hkj]; exact h.later k (by omega)

/-- at the end the chain pairing is the reference pairing -/
theorem chain_final {D C : Matrix (Fin n) (Fin n) F} {partner : Fin n → Option (Fin n)} (h : ChainInv D C n partner) :
    Cert D (D * C) C ∧ ∀ j g, partner j = some g → IsLow (colv (D * C) j) g :=
  chain_cert D C h.upper h.diag partner (fun j hj => h.cyc j hj j.isLt) (fun j g hj => (h.pair j g hj).2.2) h.inj

#print axioms chain_creator
#print axioms chain_destroyer
#print axioms chain_final
