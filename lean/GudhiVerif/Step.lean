import Mathlib.LinearAlgebra.Matrix.Transvection
import Mathlib.LinearAlgebra.Matrix.Block
import Mathlib.Tactic

/-! Prototype (layer A of `stdReduce_cert`): a column operation "col j += c · col k" with k < j, applied to R and V
    simultaneously, preserves R = D·V, upper-triangularity of V and its diagonal. -/
open Matrix

variable {n : ℕ} {F : Type*} [Field F]

/-- invariant carried by every reduction algorithm of the persistence-matrix module -/
structure Fact3 (D R V : Matrix (Fin n) (Fin n) F) : Prop where
  factor : R = D * V
  upper : V.BlockTriangular id
  diag : ∀ i, V i i ≠ 0

theorem Fact3.init (D : Matrix (Fin n) (Fin n) F) : Fact3 D D 1 :=
  ⟨by simp, Matrix.blockTriangular_one, fun i => by simp⟩

theorem Fact3.colop {D R V : Matrix (Fin n) (Fin n) F} (h : Fact3 D R V) {k j : Fin n} (hkj : k < j) (c : F) :
    Fact3 D (R * transvection k j c) (V * transvection k j c) := by
  refine ⟨?_, ?_, ?_⟩
  · rw [h.factor, Matrix.mul_assoc]
  · exact h.upper.mul (Matrix.blockTriangular_transvection (le_of_lt hkj) c)
  · intro i
    by_cases hij : i = j
    · subst hij
      rw [mul_transvection_apply_same]
      have : V i k = 0 := h.upper hkj
      simp [this, h.diag i]
    · rw [mul_transvection_apply_of_ne (i := k) (j := j) i i hij c V]
      exact h.diag i

/-- entrywise description of the column operation (what the sparse `axpy` computes) -/
theorem colop_apply (M : Matrix (Fin n) (Fin n) F) (k j : Fin n) (c : F) (i m : Fin n) :
    (M * transvection k j c) i m = if m = j then M i j + c * M i k else M i m := by
  split
  · rename_i h; subst h; rw [mul_transvection_apply_same]
  · rename_i h; rw [mul_transvection_apply_of_ne (i := k) (j := j) i m h c M]

#print axioms Fact3.colop
