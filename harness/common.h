// Shared helpers of the verification harnesses (line protocol of DESIGN.md Appendix A, simplified):
//   input : "case <n>" starts a history, then one operation per line, "end" terminates the file
//   output: "case <n>" echoed, then the observation lines of that history
#ifndef VERIF_HARNESS_COMMON_H
#define VERIF_HARNESS_COMMON_H
#include <cstdio>
#include <cstdlib>
#include <iostream>
#include <sstream>
#include <string>
#include <vector>
#include <stdexcept>
#include <new>
#include <algorithm>
namespace vh {
typedef std::vector<std::string> Toks;
inline Toks split(const std::string& s) { Toks t; std::istringstream is(s); std::string w; while (is >> w) t.push_back(w); return t; }
inline long L(const std::string& s) { return std::strtol(s.c_str(), nullptr, 10); }
inline long long LL(const std::string& s) { return std::strtoll(s.c_str(), nullptr, 10); }
inline unsigned long UL(const std::string& s) { return std::strtoul(s.c_str(), nullptr, 10); }
// "[ n x1 .. xn ]" starting at index i; advances i past "]"
inline std::vector<long> list_at(const Toks& t, size_t& i) { std::vector<long> v; if (i < t.size() && t[i] == "[") { long n = L(t[i + 1]); i += 2; for (long k = 0; k < n; ++k) v.push_back(L(t[i++])); ++i; } return v; }
template <class V> std::string join(const V& v, const char* sep = " ") { std::ostringstream o; bool f = true; for (auto& x : v) { if (!f) o << sep; o << x; f = false; } return o.str(); }
// map an exception to the small enum of the protocol
template <class F> std::string guarded(F f) {
  try { return f(); }
  catch (const std::invalid_argument&) { return "invalid_argument"; }
  catch (const std::out_of_range&) { return "out_of_range"; }
  catch (const std::domain_error&) { return "domain_error"; }
  catch (const std::overflow_error&) { return "overflow_error"; }
  catch (const std::logic_error&) { return "logic_error"; }
  catch (const std::bad_alloc&) { return "bad_alloc"; }
  catch (const std::exception&) { return "other_exception"; }
  catch (const char*) { return "other_exception"; }
  catch (...) { return "other_exception"; }
}
// main loop: handler(toks) called per op line; on_case() resets state
template <class Reset, class Handler> int run(Reset reset, Handler handle) {
  std::ios::sync_with_stdio(false);
  std::cout.setf(std::ios::unitbuf);
  std::string line;
  while (std::getline(std::cin, line)) {
    Toks t = split(line);
    if (t.empty()) continue;
    if (t[0] == "end") break;
    if (t[0] == "case") { std::cout << "case " << t[1] << "\n"; reset(); continue; }
    handle(t);
  }
  return 0;
}
}  // namespace vh
#endif
