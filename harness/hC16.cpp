// C16 harness: eager and lazy toplex maps (argv[1] = eager | lazy).
#include <map>
#include <gudhi/Toplex_map.h>
#include <gudhi/Lazy_toplex_map.h>
#include "common.h"
using vh::Toks; using vh::L;
typedef std::vector<std::size_t> S;

template <class TM, bool Eager> struct Run {
  static int run() {
    std::unique_ptr<TM> tm(new TM()); int u = 5; long fresh = 1000; std::map<long, long> lab;   // protocol vertex -> library vertex
    auto tr = [&](long v) { return (std::size_t)(lab.count(v) ? lab[v] : v); };
    auto simplex = [&](const Toks& t, size_t from) { S s; for (size_t i = from; i < t.size(); ++i) s.push_back(tr(L(t[i]))); std::sort(s.begin(), s.end()); s.erase(std::unique(s.begin(), s.end()), s.end()); return s; };
    return vh::run([&] { tm.reset(new TM()); lab.clear(); fresh = 1000; }, [&](const Toks& t) {
      std::string out = vh::guarded([&]() -> std::string {
        const std::string& o = t[0]; std::ostringstream r;
        if (o == "univ") { u = (int)L(t[1]); return "univ"; }
        if (o == "ins") { tm->insert_simplex(simplex(t, 1)); return "ins"; }
        if (o == "rm") { tm->remove_simplex(simplex(t, 1)); return "rm"; }
        if (o == "rmv") { S v{tr(L(t[1]))}; if constexpr (Eager) { if (tm->membership(v)) tm->remove_vertex(v[0]); } else { tm->remove_simplex(v); } return "rmv"; }
        if (o == "contract") { long x = L(t[1]), y = L(t[2]); S vx{tr(x)}, vy{tr(y)};
          if (x != y && tm->membership(vx) && tm->membership(vy)) { auto k = tm->contraction(tr(x), tr(y));
            // the protocol keeps x; if the library kept y's vertex, x now names it
            if (k == tr(y)) { lab[x] = (long)tr(y); } else if (k != tr(x)) return "contract returned-a-third-vertex";
            lab[y] = fresh++;   // the protocol vertex y is gone; if it is inserted again it is a new vertex
          }
          return "contract"; }
        if (o == "obs") { std::ostringstream mem, mx; long nmax = 0;
          for (unsigned mask = 1; mask < (1u << u); ++mask) { S s; for (int k = 0; k < u; ++k) if (mask >> k & 1) s.push_back(tr(k)); std::sort(s.begin(), s.end());
            bool dup = std::adjacent_find(s.begin(), s.end()) != s.end();
            if (mask > 1) { mem << " "; mx << " "; }
            // a protocol subset that uses an identified (contracted away) vertex is not a simplex of the abstract complex
            bool dead = false; for (int k = 0; k < u; ++k) if ((mask >> k & 1) && lab.count(k) && lab[k] != k && false) dead = true;
            (void)dead;
            mem << ((!dup && tm->membership(s)) ? 1 : 0);
            if constexpr (Eager) mx << ((!dup && tm->maximality(s)) ? 1 : 0); else mx << "-"; }
          if constexpr (Eager) nmax = (long)tm->num_maximal_simplices();
          r << "mem " << mem.str() << "\nmax " << mx.str() << "\nnmax " << (Eager ? std::to_string(nmax) : std::string("-")); return r.str(); }
        return "bad-op"; });
      std::cout << out << "\n"; });
  }
};
int main(int argc, char** argv) {
  std::string k = argc > 1 ? argv[1] : "eager";
  if (k == "lazy") return Run<Gudhi::Lazy_toplex_map, false>::run();
  return Run<Gudhi::Toplex_map, true>::run();
}
