// C09 harness: general-purpose (basic) matrix, one instantiation per binary.
//   -DCOLT=.. -DZ2ONLY=0/1 -DROWS -DINTRROWS -DRMROWS -DRMCOL -DMAPC -DSWAPS -DCOMP
#include <map>
#include <gudhi/Matrix.h>
#include <gudhi/persistence_matrix_options.h>
#include <gudhi/Fields/Zp_field_operators.h>
#include "common.h"
using vh::Toks; using vh::L;
using namespace Gudhi::persistence_matrix;
#ifndef COLT
#define COLT INTRUSIVE_SET
#endif
#ifndef Z2ONLY
#define Z2ONLY 1
#endif
#ifndef ROWS
#define ROWS 0
#endif
#ifndef INTRROWS
#define INTRROWS 1
#endif
#ifndef RMROWS
#define RMROWS 0
#endif
#ifndef RMCOL
#define RMCOL 0
#endif
#ifndef MAPC
#define MAPC 0
#endif
#ifndef SWAPS
#define SWAPS 0
#endif
#ifndef COMP
#define COMP 0
#endif
using Zp = Gudhi::persistence_fields::Zp_field_operators<>;
struct Opt : Default_options<Column_types::COLT, Z2ONLY != 0, Zp> {
  static const bool has_row_access = (ROWS != 0);
  static const bool has_intrusive_rows = (INTRROWS != 0);
  static const bool has_removable_rows = (RMROWS != 0);
  static const bool has_removable_columns = (RMCOL != 0);
  static const bool has_map_column_container = (MAPC != 0);
  static const bool has_column_and_row_swaps = (SWAPS != 0);
  static const bool has_column_compression = (COMP != 0);
};
typedef Matrix<Opt> M;
template <class MM, class O> struct H {
  static void pushE(std::vector<unsigned>& v, long r, long) { v.push_back((unsigned)r); }
  static void pushE(std::vector<std::pair<unsigned, unsigned> >& v, long r, long c) { v.push_back({(unsigned)r, (unsigned)c}); }
  static long md(long a, long p) { long r = a % p; return r < 0 ? r + p : r; }
  static int run() {
    std::unique_ptr<MM> m; long p = 2; long ncols = 0;
    return vh::run([&] { m.reset(); ncols = 0; }, [&](const Toks& t) {
      std::string out = vh::guarded([&]() -> std::string {
        const std::string& o = t[0]; std::ostringstream r;
        if (o == "field") { p = O::is_z2 ? 2 : L(t[1]); if (O::is_z2 && L(t[1]) != 2) return "z2-only"; if ((L(t[2]) != 0) != O::has_column_compression) return "compression-mismatch";
          if constexpr (O::is_z2) m.reset(new MM()); else m.reset(new MM(0u, (unsigned)p)); ncols = 0; return "field"; }
        if (!m) return "no-matrix";
        if (o == "inscol") { std::map<long, long> b; for (size_t i = 1; i < t.size(); ++i) { auto k = t[i].find(':'); long c = md(L(t[i].substr(k + 1)), p); if (c) b[L(t[i].substr(0, k))] = c; }
          std::vector<typename std::conditional<O::is_z2, unsigned, std::pair<unsigned, unsigned> >::type> v; for (auto& kv : b) pushE(v, kv.first, kv.second);
          m->insert_column(v); ++ncols; return "inscol"; }
        if constexpr (O::has_removable_columns && !O::has_column_compression) { if (o == "rmlast") { m->remove_last(); --ncols; return "rmlast"; } }
        if (o == "dup") {  // C15: continue with a copy / moved / swapped version; the source is mutated (copies) and destroyed
          long k = L(t[1]); std::unique_ptr<MM> n; auto fresh = [&]() { if constexpr (O::is_z2) n.reset(new MM()); else n.reset(new MM(0u, (unsigned)p)); };
          if (k == 0) n.reset(new MM(*m));
          else if (k == 1) { fresh(); *n = *m; }
          else if (k == 2) n.reset(new MM(std::move(*m)));
          else if (k == 3) { fresh(); *n = std::move(*m); }
          else if (k == 5) {   // rebuilt through the constructor that takes all the columns at once
            typedef typename std::conditional<O::is_z2, unsigned, std::pair<unsigned, unsigned> >::type Ent;
            std::vector<std::vector<Ent>> cols;
            for (long j = 0; j < ncols; ++j) { auto v = m->get_column((unsigned)j).get_content(64); std::vector<Ent> c;
              for (long q = 0; q < (long)v.size(); ++q) { long e = O::is_z2 ? (v[q] ? 1 : 0) : md((long)v[q], p); if (e) pushE(c, (unsigned)q, (unsigned)e); } cols.push_back(c); }
            if constexpr (O::is_z2) n.reset(new MM(cols)); else n.reset(new MM(cols, (unsigned)p)); }
          else { fresh(); using std::swap; swap(*n, *m); }
          if (k <= 1) { std::vector<typename std::conditional<O::is_z2, unsigned, std::pair<unsigned, unsigned> >::type> v; pushE(v, 0, 1); m->insert_column(v); }
          m = std::move(n); return "dup"; }
        if (o == "add") { m->add_to((unsigned)L(t[1]), (unsigned)L(t[2])); return "add"; }
        if (o == "mta") { m->multiply_target_and_add_to((unsigned)L(t[1]), (unsigned)md(L(t[2]), p), (unsigned)L(t[3])); return "mta"; }
        if (o == "msa") { m->multiply_source_and_add_to((unsigned)md(L(t[1]), p), (unsigned)L(t[2]), (unsigned)L(t[3])); return "msa"; }
        if constexpr (!O::has_column_compression) {
          if (o == "zeroent") { m->zero_entry((unsigned)L(t[1]), (unsigned)L(t[2])); return "zeroent"; }
          if (o == "zerocol") { m->zero_column((unsigned)L(t[1])); return "zerocol"; }
        }
        if constexpr (O::has_column_and_row_swaps) {
          if (o == "swapcol") { m->swap_columns((unsigned)L(t[1]), (unsigned)L(t[2])); return "swapcol"; }
          if (o == "swaprow") { m->swap_rows((unsigned)L(t[1]), (unsigned)L(t[2])); return "swaprow"; }
        }
        if (o == "obs") { long n = L(t[1]);
          for (long j = 0; j < ncols; ++j) { auto v = m->get_column((unsigned)j).get_content((int)n); r << "col " << j << " ["; bool first = true, zero = true;
            for (long k = 0; k < n; ++k) { long e = O::is_z2 ? (v[k] ? 1 : 0) : md((long)v[k], p); if (e) { if (!first) r << " "; first = false; zero = false; r << k << ":" << e; } }
            r << "] zero=" << (m->is_zero_column((unsigned)j) ? 1 : 0) << " ze="; for (long k = 0; k < n; ++k) { if (k) r << " "; r << (m->is_zero_entry((unsigned)j, (unsigned)k) ? 1 : 0); }
            // emptiness tests must agree with the content
            if (zero != m->is_zero_column((unsigned)j)) r << " is_zero_column-disagrees-with-content";
            if (j + 1 < ncols) r << "\n"; }
          return r.str(); }
        if constexpr (O::has_row_access) {
          if (o == "rows") { long n = L(t[1]);
            for (long k = 0; k < n; ++k) { std::map<long, long> e; try { for (auto& c : m->get_row((unsigned)k)) { long x = O::is_z2 ? 1 : md((long)c.get_element(), p); if (x) e[(long)c.get_column_index()] = x; } } catch (const std::out_of_range&) {} catch (const std::logic_error&) {}
              r << "row " << k << " ["; bool first = true; for (auto& kv : e) { if (!first) r << " "; first = false; r << kv.first << ":" << kv.second; } r << "]"; if (k + 1 < n) r << "\n"; }
            return r.str(); }
        }
        return "unsupported"; });
      if (!out.empty()) std::cout << out << "\n"; });
  }
};
int main() { return H<M, Opt>::run(); }
