// Coxeter / Freudenthal triangulation harness (C20): vertices, faces, cofaces of permutahedral representations as canonical
// vertex-set lists, is_face_of, point location (raw for the plain Freudenthal triangulation, snapped to the vertices of
// non-negligible weight for transformed triangulations).
#include <iostream>
#include <set>
#include <cmath>
#include <gudhi/Freudenthal_triangulation.h>
#include <gudhi/Coxeter_triangulation.h>
#include <gudhi/Permutahedral_representation.h>
#include "common.h"
using vh::Toks; using vh::L;
typedef Gudhi::coxeter_triangulation::Freudenthal_triangulation<> FT;
typedef Gudhi::coxeter_triangulation::Coxeter_triangulation<> CT;
typedef FT::Simplex_handle SH;
typedef std::vector<int> V;

static std::string showV(const V& v) { std::ostringstream o; for (size_t i = 0; i < v.size(); ++i) { if (i) o << ","; o << v[i]; } return o.str(); }
static std::string showS(const std::vector<V>& s) { std::ostringstream o; for (size_t i = 0; i < s.size(); ++i) { if (i) o << ";"; o << showV(s[i]); } return o.str(); }
static std::vector<V> vlist(const SH& s) { std::vector<V> r; for (auto v : s.vertex_range()) r.push_back(V(v.begin(), v.end())); return r; }
static std::vector<V> vset(const SH& s) { auto r = vlist(s); std::sort(r.begin(), r.end()); return r; }
static bool valid_rep(const SH& s, size_t d) { std::vector<int> seen(d + 1, 0); for (auto& p : s.partition()) { if (p.empty()) return false; for (auto i : p) { if (i > d || seen[i]) return false; seen[i] = 1; } }
  for (auto x : seen) if (!x) return false; auto& last = s.partition().back(); return std::find(last.begin(), last.end(), d) != last.end() && s.vertex().size() == d; }

int main() {
  std::unique_ptr<FT> tri; int kind = 0; size_t d = 2; double scale = 1; SH cur;
  return vh::run([&] { tri.reset(); kind = 0; scale = 1; cur = SH(); },
    [&](const Toks& t) {
      const std::string& o = t[0];
      std::string out;
      try { out = vh::guarded([&]() -> std::string {
        std::ostringstream r;
        if (o == "tri") { d = (size_t)L(t[1]); kind = (int)L(t[2]); scale = t.size() > 3 ? std::atof(t[3].c_str()) : 1;
          if (kind == 0) tri.reset(new FT(d));
          else if (kind == 2) tri.reset(new CT(d));
          else { Eigen::MatrixXd m(d, d); Eigen::VectorXd off(d); size_t k = 4; for (size_t i = 0; i < d; ++i) for (size_t j = 0; j < d; ++j) m(i, j) = (double)L(t[k++]); for (size_t i = 0; i < d; ++i) off(i) = (double)L(t[k++]);
            if (kind == 1) tri.reset(new FT((unsigned)d, m, off));
            else {   // kinds 3, 4, 5: a plain triangulation whose matrix / offset are changed afterwards (3: matrix then offset, 4: offset only, 5: offset then matrix)
              tri.reset(new FT(d));
              if (kind == 3) { tri->change_matrix(m); tri->change_offset(off); }
              else if (kind == 4) tri->change_offset(off);
              else { tri->change_offset(off); tri->change_matrix(m); } } }
          return "tri"; }
        if (o == "simp") { size_t dd = (size_t)L(t[1]); d = dd; V v; size_t k = 2; for (size_t i = 0; i < dd; ++i) v.push_back((int)L(t[k++])); size_t np = (size_t)L(t[k++]); SH::OrderedSetPartition ps;
          for (size_t a = 0; a < np; ++a) { size_t sz = (size_t)L(t[k++]); std::vector<std::size_t> p; for (size_t b = 0; b < sz; ++b) p.push_back((std::size_t)L(t[k++])); ps.push_back(p); }
          cur = SH(v, ps); r << "simp dim=" << cur.dimension(); return r.str(); }
        if (o == "verts") { auto l = vlist(cur); std::set<V> s(l.begin(), l.end()); r << "verts " << showS(l) << " distinct=" << (s.size() == l.size() ? 1 : 0); return r.str(); }
        if (o == "faces") { size_t k = (size_t)L(t[1]); std::vector<std::string> sets; bool isf = true; auto vs = vset(cur);
          for (auto f : cur.face_range(k)) { auto fv = vset(f); sets.push_back(showS(fv)); if (!f.is_face_of(cur)) isf = false; if (f.dimension() != k) isf = false; if (!std::includes(vs.begin(), vs.end(), fv.begin(), fv.end())) isf = false; if (!valid_rep(f, d)) isf = false; }
          std::sort(sets.begin(), sets.end()); r << "faces " << k << " n=" << sets.size() << " isface=" << (isf ? 1 : 0) << " " << vh::join(sets); return r.str(); }
        if (o == "cofaces") { size_t m = (size_t)L(t[1]); std::vector<std::string> sets; bool ok = true; auto vs = vset(cur);
          for (auto c : cur.coface_range(m)) { auto cv = vset(c); sets.push_back(showS(cv)); if (c.dimension() != m || !valid_rep(c, d)) ok = false; if (!cur.is_face_of(c)) ok = false;
            bool listed = false; for (auto f : c.face_range(cur.dimension())) if (vset(f) == vs) listed = true; if (!listed) ok = false;
            if (m > cur.dimension() && c.is_face_of(cur)) ok = false; }
          std::sort(sets.begin(), sets.end()); r << "cofaces " << m << " n=" << sets.size() << " ok=" << (ok ? 1 : 0) << " " << vh::join(sets); return r.str(); }
        if (o == "locate" || o == "locatev") { double den = (double)L(t[1]); size_t n = t.size() - 2; Eigen::VectorXd x(n); for (size_t i = 0; i < n; ++i) x(i) = (double)L(t[2 + i]) / den;
          if (!tri) tri.reset(new FT(n));
          Eigen::VectorXd p = (kind == 0) ? Eigen::VectorXd(x / scale) : Eigen::VectorXd(tri->matrix() * (x / scale) + tri->offset());
          std::vector<double> pt(p.data(), p.data() + n);
          SH s = tri->locate_point(pt, scale); cur = s;
          // barycentric weights through the public coordinates: p = sum w_i * cartesian(v_i), sum w_i = 1
          auto vl = vlist(s); size_t k = vl.size() - 1; bool wok = true; std::vector<double> w(k + 1, 1.0);
          { Eigen::VectorXd c0 = tri->cartesian_coordinates(vl[0], scale);
            if (k > 0) { Eigen::MatrixXd A(n, k); for (size_t i = 1; i <= k; ++i) A.col(i - 1) = tri->cartesian_coordinates(vl[i], scale) - c0;
              Eigen::VectorXd sol = A.colPivHouseholderQr().solve(p - c0); if ((A * sol - (p - c0)).norm() > 1e-7) wok = false; double s0 = 1; for (size_t i = 1; i <= k; ++i) { w[i] = sol(i - 1); s0 -= sol(i - 1); } w[0] = s0; }
            else if ((p - c0).norm() > 1e-7) wok = false; }
          if (!valid_rep(s, n)) wok = false;
          if (o == "locate") { for (auto x_ : w) if (!(x_ > 1e-9)) wok = false;   // relative interior
            std::ostringstream ps; for (size_t a = 0; a < s.partition().size(); ++a) { if (a) ps << "|"; auto part = s.partition()[a]; std::sort(part.begin(), part.end()); for (size_t b = 0; b < part.size(); ++b) { if (b) ps << ","; ps << part[b]; } }
            r << "locate v=" << showV(s.vertex()) << " parts=" << ps.str() << " verts=" << showS(vset(s)) << " weights-ok=" << (wok ? 1 : 0); return r.str(); }
          std::vector<V> keep; for (size_t i = 0; i <= k; ++i) { if (w[i] < -1e-7) wok = false; if (w[i] > 1e-9) keep.push_back(vl[i]); }
          std::sort(keep.begin(), keep.end()); r << "locate verts=" << showS(keep) << " weights-ok=" << (wok ? 1 : 0); return r.str(); }
        return "bad-op"; }); }
      catch (...) { out = "other_exception"; }
      std::cout << out << "\n"; });
}
