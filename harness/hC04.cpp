// C04 harness: flag expansions of a weighted graph by every route, on the real simplex tree (OPTN=0 default, 1 full_featured).
#include <cmath>
#include <map>
#include <gudhi/Simplex_tree.h>
#include <gudhi/graph_simplicial_complex.h>
#include <gudhi/Rips_complex.h>
#include <gudhi/distance_functions.h>
#include "common.h"
using vh::Toks; using vh::L;
#ifndef OPTN
#define OPTN 1
#endif
struct Opt_int_values : Gudhi::Simplex_tree_options_full_featured { typedef int Filtration_value; };   // an integral value type (allowed by the FiltrationValue concept)
#if OPTN == 0
typedef Gudhi::Simplex_tree_options_default OPT;
#elif OPTN == 2
typedef Opt_int_values OPT;
#else
typedef Gudhi::Simplex_tree_options_full_featured OPT;
#endif
typedef Gudhi::Simplex_tree<OPT> ST;
typedef typename ST::Filtration_value FV;
typedef std::vector<int> S;
static S verts(const ST& st, typename ST::Simplex_handle sh) { S v; for (auto x : st.simplex_vertex_range(sh)) v.push_back((int)x); std::sort(v.begin(), v.end()); return v; }
static std::string W(const S& s) { std::ostringstream o; for (size_t i = 0; i < s.size(); ++i) { if (i) o << ","; o << s[i]; } return o.str(); }
static std::string cplx(ST& st) { std::vector<std::pair<S, long>> all; for (auto sh : st.complex_simplex_range()) all.push_back({verts(st, sh), (long)std::llround(st.filtration(sh))}); std::sort(all.begin(), all.end());
  std::ostringstream o; o << "cplx"; for (auto& p : all) o << " " << W(p.first) << ":" << p.second; return o.str(); }

struct Graph { std::map<int, long> v; std::vector<std::tuple<int, int, long>> e; };
static void build(ST& st, const Graph& g) {
  // through the boost graph interface of insert_graph
  typedef Gudhi::Proximity_graph<ST> PG;
  std::vector<typename PG::edge_descriptor> dummy; (void)dummy;
  // the tree needs contiguous boost vertex descriptors: map labels to descriptors and set the vertex labels through the tree afterwards is not possible,
  // so labels are inserted directly: vertices then edges, which is what insert_graph does (insert_simplex_raw on vertices and edges)
  for (auto& kv : g.v) st.insert_simplex({kv.first}, (FV)kv.second);
  for (auto& t : g.e) st.insert_simplex({std::get<0>(t), std::get<1>(t)}, (FV)std::get<2>(t));
}
static bool blocked(const std::string& rule, long arg, const S& w) {
  if (rule == "parity") { long s = 0; for (int x : w) s += x; return s % 2 == 1; }
  if (rule == "size") return (long)w.size() == arg;
  if (rule == "has") return std::find(w.begin(), w.end(), (int)arg) != w.end();
  if (rule == "mask") { long m = 0; for (int x : w) m |= 1L << x; return m == arg; }        // exactly the simplex with this vertex bit mask
  return false; }

int main() {
  Graph g; std::unique_ptr<ST> inc(new ST());
  return vh::run([&] { g = Graph(); inc.reset(new ST()); }, [&](const Toks& t) {
    std::string out = vh::guarded([&]() -> std::string {
      const std::string& o = t[0]; std::ostringstream r;
      if (o == "gv") { g.v[(int)L(t[1])] = L(t[2]); return ""; }
      if (o == "ge") { g.e.push_back({(int)std::min(L(t[1]), L(t[2])), (int)std::max(L(t[1]), L(t[2])), L(t[3])}); return ""; }
      if (o == "expand") { ST st; build(st, g); st.expansion((int)L(t[1])); return cplx(st); }
      if (o == "expandb") { ST st; build(st, g); std::string rule = t[2]; long arg = L(t[3]);
        st.expansion_with_blockers((int)L(t[1]), [&](typename ST::Simplex_handle sh) { return blocked(rule, arg, verts(st, sh)); }); return cplx(st); }
      if constexpr (std::is_floating_point<FV>::value) {
      if (o == "ripsm") {   // ripsm n thr dim d(1,0) d(2,0) d(2,1) ...   (lower triangular distance matrix)
        int n = (int)L(t[1]); double thr = (double)L(t[2]); int dim = (int)L(t[3]); std::vector<std::vector<double>> dm(n); size_t k = 4;
        for (int i = 0; i < n; ++i) for (int j = 0; j < i; ++j) dm[i].push_back((double)L(t[k++]));
        Gudhi::rips_complex::Rips_complex<double> rips(dm, thr); ST st; rips.create_complex(st, dim); return cplx(st); }
      if (o == "ripsp") {   // ripsp thr dim x0 x1 ...   (points on a line, Euclidean distance)
        double thr = (double)L(t[1]); int dim = (int)L(t[2]); std::vector<std::vector<double>> pts; for (size_t i = 3; i < t.size(); ++i) pts.push_back({(double)L(t[i])});
        Gudhi::rips_complex::Rips_complex<double> rips(pts, thr, Gudhi::Euclidean_distance()); ST st; rips.create_complex(st, dim); return cplx(st); }
      }
      if constexpr (OPT::link_nodes_by_label) {
        if (o == "edge") { std::vector<typename ST::Simplex_handle> added; inc->insert_edge_as_flag((int)L(t[1]), (int)L(t[2]), (FV)L(t[3]), (int)L(t[4]), added);
          std::vector<S> a; for (auto sh : added) a.push_back(verts(*inc, sh)); std::sort(a.begin(), a.end()); r << "added"; for (auto& s : a) r << " " << W(s); return r.str(); }
        if (o == "cplx") return cplx(*inc);
        if (o == "inceq") {   // inceq d : the incremental tree against the one-shot expansion of the same graph (stored dimension, operator==)
          ST st; build(st, g); int d = (int)L(t[1]); st.expansion(d < 0 ? 64 : d);
          r << "inceq dim=" << inc->dimension() << " eq=" << ((st == *inc && *inc == st) ? 1 : 0); return r.str(); }
        if (o == "mfnd") { inc->make_filtration_non_decreasing(); return "mfnd"; }
      }
      return "unsupported"; });
    if (!out.empty()) std::cout << out << "\n"; });
}
