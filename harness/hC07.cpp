// Zigzag harness (C07): the same history of single-cell insertions / removals / identity arrows drives the plain engine (cells named
// by arrow numbers), the storing filtered front-end and the streaming filtered front-end (cells named by non-contiguous keys).
// `bars` prints the intervals by arrow numbers and both value-level diagrams (pairs printed as (min,max)).
#include <iostream>
#include <map>
#include <cmath>
#include <gudhi/zigzag_persistence.h>
#include <gudhi/filtered_zigzag_persistence.h>
#include "common.h"
using vh::Toks; using vh::L;
#ifndef COLT
#define COLT INTRUSIVE_LIST
#endif
struct ZO : Gudhi::zigzag_persistence::Default_zigzag_options { static const Gudhi::persistence_matrix::Column_types column_type = Gudhi::persistence_matrix::Column_types::COLT; };
struct FO : Gudhi::zigzag_persistence::Default_filtered_zigzag_options { static const Gudhi::persistence_matrix::Column_types column_type = Gudhi::persistence_matrix::Column_types::COLT; };
typedef Gudhi::zigzag_persistence::Zigzag_persistence<ZO> ZP;
typedef Gudhi::zigzag_persistence::Filtered_zigzag_persistence_with_storage<FO> FS;
typedef Gudhi::zigzag_persistence::Filtered_zigzag_persistence<FO> FT;
typedef std::vector<int> S;
static long keyOf(const S& s) { long k = 0; for (int v : s) k = k * 9 + (v + 1); return k * 3 + 5; }

int main() {
  std::vector<std::tuple<int, long, long>> idx; std::vector<std::tuple<int, long, long>> stream;
  std::unique_ptr<ZP> zp; std::unique_ptr<FS> fs; std::unique_ptr<FT> ft; std::map<S, int> id; int dimMax = -1; long arrow = -1;
  auto fresh = [&]() { idx.clear(); stream.clear(); id.clear(); arrow = -1;
    zp.reset(new ZP([&](int d, int b, int de) { idx.push_back({d, b, de}); }));
    fs.reset(new FS(0, dimMax));
    ft.reset(new FT([&](int d, double b, double de) { stream.push_back({d, std::llround(std::min(b, de)), std::llround(std::max(b, de))}); })); };
  return vh::run([&] { dimMax = -1; fresh(); }, [&](const Toks& t) {
    const std::string& o = t[0];
    std::string out;
    try { out = vh::guarded([&]() -> std::string {
      std::ostringstream r;
      if (o == "opts") { dimMax = (int)L(t[1]); fresh(); return "opts"; }
      if (o == "ins") { double f = (double)L(t[1]); S s; for (size_t i = 2; i < t.size(); ++i) s.push_back((int)L(t[i])); std::sort(s.begin(), s.end());
        std::vector<int> bd; std::vector<long> bk; if (s.size() > 1) for (size_t i = 0; i < s.size(); ++i) { S f2 = s; f2.erase(f2.begin() + i); bd.push_back(id.at(f2)); bk.push_back(keyOf(f2)); } std::sort(bd.begin(), bd.end());
        int a = zp->insert_cell(bd, (int)s.size() - 1); ++arrow; if (a != arrow) return "ins arrow-number-mismatch"; id[s] = a;
        fs->insert_cell((int)keyOf(s), std::vector<int>(bk.begin(), bk.end()), (int)s.size() - 1, f); ft->insert_cell((int)keyOf(s), std::vector<int>(bk.begin(), bk.end()), (int)s.size() - 1, f); return "ins"; }
      if (o == "rm") { double f = (double)L(t[1]); S s; for (size_t i = 2; i < t.size(); ++i) s.push_back((int)L(t[i])); std::sort(s.begin(), s.end());
        int a = zp->remove_cell(id.at(s)); ++arrow; if (a != arrow) return "rm arrow-number-mismatch"; id.erase(s); fs->remove_cell((int)keyOf(s), f); ft->remove_cell((int)keyOf(s), f); return "rm"; }
      if (o == "idle") { int a = zp->apply_identity(); ++arrow; if (a != arrow) return "idle arrow-number-mismatch"; fs->apply_identity(); ft->apply_identity(); return "idle"; }
      if (o == "bars") {
        auto all = idx; zp->get_current_infinite_intervals([&](int d, int b) { all.push_back({d, b, -1}); });
        std::sort(all.begin(), all.end(), [](auto& a, auto& b) { auto ka = std::make_tuple(std::get<0>(a), std::get<1>(a), std::get<2>(a) < 0 ? 1 : 0, std::get<2>(a)); auto kb = std::make_tuple(std::get<0>(b), std::get<1>(b), std::get<2>(b) < 0 ? 1 : 0, std::get<2>(b)); return ka < kb; });
        r << "idx"; for (auto& x : all) { r << " " << std::get<0>(x) << ":" << std::get<1>(x) << ":"; if (std::get<2>(x) < 0) r << "inf"; else r << std::get<2>(x); } if (all.empty()) r << " ";
        auto pr = [&](const char* name, std::vector<std::tuple<int, long, long>> v) { std::sort(v.begin(), v.end(), [](auto& a, auto& b) { auto ka = std::make_tuple(std::get<0>(a), std::get<1>(a), std::get<2>(a) == LONG_MAX ? 1 : 0, std::get<2>(a)); auto kb = std::make_tuple(std::get<0>(b), std::get<1>(b), std::get<2>(b) == LONG_MAX ? 1 : 0, std::get<2>(b)); return ka < kb; });
          r << "\n" << name; for (auto& x : v) { r << " " << std::get<0>(x) << ":" << std::get<1>(x) << ":"; if (std::get<2>(x) == LONG_MAX) r << "inf"; else r << std::get<2>(x); } if (v.empty()) r << " "; };
        std::vector<std::tuple<int, long, long>> st; for (auto& b : fs->get_persistence_diagram()) st.push_back({b.dim, std::llround(b.birth), std::isinf(b.death) ? LONG_MAX : std::llround(b.death)});
        pr("fstore", st);
        auto sm = stream; ft->get_current_infinite_intervals([&](int d, double b) { sm.push_back({d, std::llround(b), LONG_MAX}); });
        pr("fstream", sm);
        return r.str(); }
      return "bad-op"; }); }
    catch (...) { out = "other_exception"; }
    std::cout << out << "\n"; });
}
