// Sparse Rips harness (C19).  Points on the integer grid with the L-infinity or L1 metric (exact distances); the farthest-point
// order and radii are read through the verification hook; `probe` prints them, `given` checks that a later run reproduces them.
#include <iostream>
#include <cmath>
#include <gudhi/Sparse_rips_complex.h>
#include <gudhi/Simplex_tree.h>
#include "common.h"
using vh::Toks; using vh::L;
typedef Gudhi::Simplex_tree<> ST; typedef std::vector<double> Pt;
typedef Gudhi::rips_complex::Sparse_rips_complex<double> SR;
static std::string val(double f) { if (std::isinf(f)) return f > 0 ? "inf" : "ninf"; double r = std::round(f); if (std::fabs(f - r) > 1e-9) { char b[64]; std::snprintf(b, sizeof b, "x%.9f", f); return b; } return std::to_string((long)r); }
int main() {
  std::vector<Pt> pts; bool l1 = false; double eps = 0.5; double mini = -INFINITY, maxi = INFINITY; int dim = 2; long start = -1;
  std::vector<long> g_order; std::vector<std::string> g_params;
  auto dist = [&](const Pt& a, const Pt& b) { double dx = std::fabs(a[0] - b[0]), dy = std::fabs(a[1] - b[1]); return l1 ? dx + dy : std::max(dx, dy); };
  return vh::run([&] { pts.clear(); l1 = false; eps = 0.5; mini = -INFINITY; maxi = INFINITY; dim = 2; start = -1; g_order.clear(); g_params.clear(); SR::verif_starting_point() = std::size_t(-1); },
    [&](const Toks& t) {
      const std::string& o = t[0];
      std::string out;
      try { out = vh::guarded([&]() -> std::string {
        std::ostringstream r;
        if (o == "pts") { pts.clear(); for (size_t i = 2; i + 1 < t.size(); i += 2) pts.push_back({(double)L(t[i]), (double)L(t[i + 1])}); return "pts"; }
        if (o == "metric") { l1 = t[1] == "l1"; return "metric"; }
        if (o == "eps") { eps = (double)L(t[1]) / (double)L(t[2]); return "eps"; }
        if (o == "bounds") { mini = t[1] == "ninf" ? -INFINITY : (double)L(t[1]); maxi = t[2] == "inf" ? INFINITY : (double)L(t[2]); return "bounds"; }
        if (o == "dim") { dim = (int)L(t[1]); return "dim"; }
        if (o == "start") { start = L(t[1]); SR::verif_starting_point() = start < 0 ? std::size_t(-1) : (std::size_t)start; return "start"; }
        if (o == "probe") { SR sr(pts, dist, eps, mini, maxi); r << "probe " << pts.size(); for (auto p : sr.verif_sorted_points()) r << " " << p; for (auto l : sr.verif_params()) r << " " << val(l); return r.str(); }
        if (o == "given") { long n = L(t[1]); g_order.clear(); g_params.clear(); for (long i = 0; i < n; ++i) g_order.push_back(L(t[2 + i])); for (long i = 0; i < n; ++i) g_params.push_back(t[2 + n + i]);
          SR sr(pts, dist, eps, mini, maxi); bool ok = sr.verif_sorted_points().size() == (size_t)n; for (long i = 0; ok && i < n; ++i) if (sr.verif_sorted_points()[i] != g_order[i] || val(sr.verif_params()[i]) != g_params[i]) ok = false;
          return std::string("given ok=") + (ok ? "1" : "0"); }
        if (o == "sparse") { SR sr(pts, dist, eps, mini, maxi); ST st; sr.create_complex(st, dim);
          std::vector<std::pair<std::vector<int>, std::string>> all; for (auto sh : st.complex_simplex_range()) { std::vector<int> v; for (auto x : st.simplex_vertex_range(sh)) v.push_back(x); std::sort(v.begin(), v.end()); all.push_back({v, val(st.filtration(sh))}); }
          std::sort(all.begin(), all.end()); r << "cplx"; for (auto& p : all) { r << " "; for (size_t i = 0; i < p.first.size(); ++i) { if (i) r << ","; r << p.first[i]; } r << ":" << p.second; } if (all.empty()) r << " "; return r.str(); }
        return "bad-op"; }); }
      catch (...) { out = "other_exception"; }
      std::cout << out << "\n"; });
}
