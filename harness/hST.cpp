// Simplex-tree harness (C01, C03, C04, C15): executes a history on the real Gudhi::Simplex_tree<OPT> and prints the
// canonical observation lines that `gvdriver ST` prints for the same history.  Compile with -DOPTN=<k>.
#include <iostream>
#include <map>
#include <set>
#include <cmath>
#include <cstring>
#include <gudhi/Simplex_tree.h>
#include <gudhi/graph_simplicial_complex.h>
#include "common.h"
#ifdef GUDHI_USE_TBB
#include <tbb/global_control.h>
#endif
using vh::Toks; using vh::L;

struct Opt_fast_cofaces { typedef Gudhi::linear_indexing_tag Indexing_tag; typedef int Vertex_handle; typedef double Filtration_value; typedef std::uint32_t Simplex_key;
  static const bool store_key = true; static const bool store_filtration = true; static const bool contiguous_vertices = false; static const bool link_nodes_by_label = true; static const bool stable_simplex_handles = false; };
struct Opt_stable { typedef Gudhi::linear_indexing_tag Indexing_tag; typedef int Vertex_handle; typedef double Filtration_value; typedef std::uint32_t Simplex_key;
  static const bool store_key = true; static const bool store_filtration = true; static const bool contiguous_vertices = false; static const bool link_nodes_by_label = false; static const bool stable_simplex_handles = true; };
struct Opt_low : Gudhi::Simplex_tree_options_full_featured { typedef std::int16_t Vertex_handle; typedef float Filtration_value; typedef std::uint8_t Simplex_key; };
struct Opt_contig_stable { typedef Gudhi::linear_indexing_tag Indexing_tag; typedef int Vertex_handle; typedef double Filtration_value; typedef std::uint32_t Simplex_key;
  static const bool store_key = true; static const bool store_filtration = true; static const bool contiguous_vertices = true; static const bool link_nodes_by_label = true; static const bool stable_simplex_handles = true; };
#ifndef OPTN
#define OPTN 0
#endif
#if OPTN == 0
typedef Gudhi::Simplex_tree_options_default OPT;
#elif OPTN == 1
typedef Gudhi::Simplex_tree_options_full_featured OPT;
#elif OPTN == 2
typedef Gudhi::Simplex_tree_options_fast_persistence OPT;
#elif OPTN == 3
typedef Gudhi::Simplex_tree_options_minimal OPT;
#elif OPTN == 4
typedef Opt_fast_cofaces OPT;
#elif OPTN == 5
typedef Opt_stable OPT;
#elif OPTN == 6
typedef Opt_low OPT;
#elif OPTN == 7
typedef Opt_contig_stable OPT;
#endif
typedef Gudhi::Simplex_tree<OPT> ST;
typedef std::vector<int> S;
typedef typename ST::Vertex_handle VH;

static S verts(const ST& st, typename ST::Simplex_handle sh) { S v; for (auto x : st.simplex_vertex_range(sh)) v.push_back((int)x); std::sort(v.begin(), v.end()); return v; }
static std::string W(const S& s) { std::ostringstream o; for (size_t i = 0; i < s.size(); ++i) { if (i) o << ","; o << s[i]; } return o.str(); }
static double scale = 1;  // values are printed in units of 1/scale (set by extend)
static long F(double f) { return (long)std::llround(f * scale); }
static long F0(double f) { return (long)std::llround(f); }
static std::vector<VH> tovh(const S& s) { return std::vector<VH>(s.begin(), s.end()); }
static S words(const Toks& t, size_t from) { S s; for (size_t i = from; i < t.size(); ++i) s.push_back((int)L(t[i])); std::sort(s.begin(), s.end()); s.erase(std::unique(s.begin(), s.end()), s.end()); return s; }
static std::string Ws(std::vector<S> v) { std::sort(v.begin(), v.end()); std::vector<std::string> o; for (auto& s : v) o.push_back(W(s)); return vh::join(o); }

static std::string cplx_line(ST& st) { std::vector<std::pair<S, long>> all; for (auto sh : st.complex_simplex_range()) all.push_back({verts(st, sh), F(st.filtration(sh))}); std::sort(all.begin(), all.end());
  std::ostringstream o; o << "cplx"; for (auto& p : all) o << " " << W(p.first) << ":" << p.second; if (all.empty()) o << " "; return o.str(); }

static void obs(ST& st, int universe) {
  // equality with a tree rebuilt from the dump (other insertion history), inequality with a perturbed one: evaluated FIRST, in both
  // directions, before any call (dimension(), counts) that would refresh a lazily maintained dimension bound
  bool eq_first;
  { std::vector<std::pair<S, long>> all0; for (auto sh : st.complex_simplex_range()) all0.push_back({verts(st, sh), F(st.filtration(sh))}); std::sort(all0.begin(), all0.end());
    ST other; for (auto& p : all0) other.insert_simplex(tovh(p.first), (typename ST::Filtration_value)p.second);
    bool e = (other == st) && !(other != st) && (st == other) && !(st != other);
    if (!all0.empty()) { ST third(other); third.insert_simplex(tovh(S{universe + 3}), 0); if (st == third || third == st) e = false; }
    eq_first = e; }
  std::vector<std::pair<S, long>> all; for (auto sh : st.complex_simplex_range()) all.push_back({verts(st, sh), F(st.filtration(sh))}); std::sort(all.begin(), all.end());
  std::cout << cplx_line(st) << "\n";
  { // both orders of the two calls that may lower a stale dimension bound (chosen by the parity of the size, so that a history replays identically)
    size_t ns = st.num_simplices(); int dim_; std::vector<size_t> byd;
    if (ns % 2) { byd = st.num_simplices_by_dimension(); dim_ = st.dimension(); } else { dim_ = st.dimension(); byd = st.num_simplices_by_dimension(); }
    std::cout << "n " << ns << " dim " << dim_ << " bydim " << vh::join(byd) << "\n"; }
  { S vs; for (auto v : st.complex_vertex_range()) vs.push_back((int)v); std::sort(vs.begin(), vs.end()); std::cout << "verts " << vh::join(vs) << "\n"; }
  { std::vector<S> sk; for (auto sh : st.skeleton_simplex_range(1)) sk.push_back(verts(st, sh)); std::cout << "skel1 " << Ws(sk) << "\n"; }
  { std::vector<S> sk; for (auto sh : st.skeleton_simplex_range(2)) sk.push_back(verts(st, sh)); std::cout << "skel2 " << Ws(sk) << "\n"; }
  if (st.upper_bound_dimension() < st.dimension()) std::cout << "upper_bound_dimension below dimension\n";
  for (auto& p : all) {
    auto sh = st.find(tovh(p.first));
    if (sh == st.null_simplex()) { std::cout << "s " << W(p.first) << " NOT-FOUND\n"; continue; }
    std::vector<std::pair<int, std::string>> bd;
    for (auto bo : st.boundary_opposite_vertex_simplex_range(sh)) { std::ostringstream o; o << W(verts(st, bo.first)) << ":" << F(st.filtration(bo.first)) << "/" << (int)bo.second; bd.push_back({(int)bo.second, o.str()}); }
    std::sort(bd.begin(), bd.end()); std::vector<std::string> bds; for (auto& b : bd) bds.push_back(b.second);
    // the plain boundary range must list the same faces
    { std::multiset<S> a, b; for (auto f : st.boundary_simplex_range(sh)) a.insert(verts(st, f)); for (auto bo : st.boundary_opposite_vertex_simplex_range(sh)) b.insert(verts(st, bo.first)); if (a != b) bds.push_back("boundary-ranges-differ"); }
    std::vector<S> star, c1, c2;
    for (auto c : st.star_simplex_range(sh)) star.push_back(verts(st, c));
    for (auto c : st.cofaces_simplex_range(sh, 1)) c1.push_back(verts(st, c));
    for (auto c : st.cofaces_simplex_range(sh, 2)) c2.push_back(verts(st, c));
    std::cout << "s " << W(p.first) << " f=" << F(st.filtration(sh)) << " d=" << st.dimension(sh) << " bd=[" << vh::join(bds) << "] star=[" << Ws(star) << "] cof1=[" << Ws(c1) << "] cof2=[" << Ws(c2) << "]\n"; }
  // find() of every non-member subset of the universe
  { long bad = 0; std::set<S> mem; for (auto& p : all) mem.insert(p.first);
    for (unsigned m = 1; m < (1u << universe); ++m) { S s; for (int k = 0; k < universe; ++k) if (m >> k & 1) s.push_back(k); if (!mem.count(s) && st.find(tovh(s)) != st.null_simplex()) ++bad; }
    std::cout << "nonmem " << bad << "\n"; }
  std::cout << "eq " << (eq_first ? 1 : 0) << "\n";
}

int main(int argc, char** argv) {
#ifdef GUDHI_USE_TBB
  tbb::global_control gc(tbb::global_control::max_allowed_parallelism, argc > 1 ? std::atoi(argv[1]) : 2);
#endif
  (void)argc; (void)argv;
  // three objects (C15); every operation of the single-tree protocol acts on the selected one
  ST* slots[3] = {new ST(), new ST(), new ST()}; int cur = 0; int universe = 5;
  // operations documented as "call clear_filtration() afterwards" set dirty; the ones that drop the cache themselves do not
  bool dirtyv[3] = {false, false, false};
#define st slots[cur]
#define dirty dirtyv[cur]
  auto fresh = [&](int k) { delete slots[k]; slots[k] = new ST(); dirtyv[k] = false; };
  auto hex = [](const char* b, std::size_t n) { static const char* d = "0123456789abcdef"; std::string o; for (std::size_t i = 0; i < n; ++i) { unsigned char c = (unsigned char)b[i]; o += d[c >> 4]; o += d[c & 15]; } return o; };
  return vh::run([&] { for (int k = 0; k < 3; ++k) fresh(k); cur = 0; scale = 1; },
    [&](const Toks& t) {
      const std::string& o = t[0];
      std::cout << vh::guarded([&]() -> std::string {
        std::ostringstream r;
        if (o == "ins" || o == "insf" || o == "batch" || o == "rmmax" || o == "assign") dirty = true;
        if (o == "univ") { universe = (int)L(t[1]); return "univ"; }
        if (o == "sel") { cur = (int)L(t[1]); return "sel"; }
        if (o == "widths") { if ((long)sizeof(VH) != L(t[1]) || (OPT::store_filtration ? (long)sizeof(typename ST::Filtration_value) : 0) != L(t[2])) return "widths-mismatch"; return "widths"; }
        if (o == "copy") { int a = (int)L(t[1]), c = (int)L(t[2]); ST* n = new ST(*slots[a]); delete slots[c]; slots[c] = n; dirtyv[c] = dirtyv[a]; return "copy"; }
        if (o == "cassign") { int a = (int)L(t[1]), c = (int)L(t[2]); *slots[c] = *slots[a]; dirtyv[c] = dirtyv[a]; return "cassign"; }
        if (o == "mctor") { int a = (int)L(t[1]), c = (int)L(t[2]); ST* n = new ST(std::move(*slots[a])); delete slots[c]; slots[c] = n; dirtyv[c] = dirtyv[a]; dirtyv[a] = false;
          r << "mctor src-empty=" << (slots[a]->num_simplices() == 0 && slots[a]->num_vertices() == 0 && slots[a]->dimension() == -1 ? 1 : 0); return r.str(); }
        if (o == "massign") { int a = (int)L(t[1]), c = (int)L(t[2]); *slots[c] = std::move(*slots[a]); dirtyv[c] = dirtyv[a]; dirtyv[a] = false;
          r << "massign src-empty=" << (slots[a]->num_simplices() == 0 && slots[a]->num_vertices() == 0 && slots[a]->dimension() == -1 ? 1 : 0); return r.str(); }
        if (o == "swap") { int a = (int)L(t[1]), c = (int)L(t[2]); std::swap(*slots[a], *slots[c]); std::swap(dirtyv[a], dirtyv[c]); return "swap"; }
        if (o == "destroy") { fresh((int)L(t[1])); return "destroy"; }
        if (o == "eq") { r << "eq " << ((*slots[L(t[1])] == *slots[L(t[2])]) ? 1 : 0); return r.str(); }
        if (o == "ser") { std::size_t n = st->get_serialization_size(); char* buf = new char[n]; std::string res;
          try { st->serialize(buf, n); res = hex(buf, n); } catch (...) { delete[] buf; throw; } delete[] buf; r << "ser " << n << " " << res; return r.str(); }
        if (o == "deser") { int c = (int)L(t[1]); bool longer = L(t[2]) == 1; std::size_t k = (std::size_t)L(t[3]);
          std::size_t n = st->get_serialization_size(); char* buf = new char[n]; st->serialize(buf, n);
          std::size_t m = longer ? n + k : (k > n ? 0 : n - k); char* b2 = new char[m ? m : 1]; if (m) std::memset(b2, 0, m); std::memcpy(b2, buf, std::min(n, m)); delete[] buf;
          // a heap buffer of exactly m bytes, so that a read past the end is an ASan/valgrind error, not a silent success
          char* b3 = (char*)std::malloc(m); if (m) std::memcpy(b3, b2, m); delete[] b2;
          fresh(c); std::string res;
          try { slots[c]->deserialize(b3, m); res = "deser ok"; } catch (const std::invalid_argument&) { res = "deser invalid_argument"; fresh(c); } catch (...) { std::free(b3); fresh(c); throw; }
          std::free(b3); return res; }
        if (o == "text") { int c = (int)L(t[1]); if (dirty) { st->clear_filtration(); dirty = false; } std::stringstream ss; ss << *st; fresh(c); ss >> *slots[c]; return "text"; }
        if (o == "ins") { S s = words(t, 2); auto sh0 = st->find(tovh(s)); bool isnew = (sh0 == st->null_simplex()); auto res = st->insert_simplex(tovh(s), (typename ST::Filtration_value)L(t[1]));
          r << "ins new=" << (res.second ? 1 : 0) << " h=" << (res.first != st->null_simplex() ? 1 : 0); if (isnew != res.second) r << " flag-mismatch"; return r.str(); }
        if (o == "insf") { S s = words(t, 2); bool isnew = (st->find(tovh(s)) == st->null_simplex()); auto res = st->insert_simplex_and_subfaces(tovh(s), (typename ST::Filtration_value)L(t[1]));
          r << "insf new=" << (isnew ? 1 : 0) << " h=" << (res.first != st->null_simplex() ? 1 : 0); if (isnew != res.second) r << " flag-mismatch"; return r.str(); }
        if (o == "batch") { S s = words(t, 2); st->insert_batch_vertices(tovh(s), (typename ST::Filtration_value)L(t[1])); return "batch"; }
        if (o == "rmmax") { S s = words(t, 1); st->remove_maximal_simplex(st->find(tovh(s))); return "rmmax"; }
        if (o == "prunef") { bool m = st->prune_above_filtration((typename ST::Filtration_value)L(t[1])); return std::string("prunef ") + (m ? "1" : "0"); }
        if (o == "pruned") { bool m = st->prune_above_dimension((int)L(t[1])); return std::string("pruned ") + (m ? "1" : "0"); }
        if (o == "clear") { st->clear(); return "clear"; }
        if constexpr (OPT::store_filtration) {
          if (o == "assign") { S s = words(t, 2); st->assign_filtration(st->find(tovh(s)), (typename ST::Filtration_value)L(t[1])); return "assign"; }
          if (o == "mfnd") { bool m = st->make_filtration_non_decreasing(); return std::string("mfnd ") + (m ? "1" : "0"); }
        }
        if constexpr (OPT::store_filtration) {
          if (o == "extend") {
            auto efd = st->extend_filtration(); double D = efd.maxval - efd.minval; if (D == 0) D = 1; scale = D;
            r << "extend " << F0(efd.minval) << " " << F0(efd.maxval) << "\ndecode";
            std::vector<std::pair<S, std::string>> dec;
            for (auto sh : st->complex_simplex_range()) { auto p = st->decode_extended_filtration(st->filtration(sh), efd); std::ostringstream q; q << W(verts(*st, sh)) << ":"; if (std::isnan((double)p.first)) q << "nan"; else q << F0(p.first);
              q << "/" << (p.second == Gudhi::Extended_simplex_type::UP ? 0 : p.second == Gudhi::Extended_simplex_type::DOWN ? 1 : 2); dec.push_back({verts(*st, sh), q.str()}); }
            std::sort(dec.begin(), dec.end()); for (auto& d : dec) r << " " << d.second; return r.str(); }
        }
        if (o == "obs") { obs(*st, universe); return ""; }
        if (o == "cplx") return cplx_line(*st);
        if (o == "dim") { r << "dim " << st->dimension(); return r.str(); }
        if (o == "find") { S s = words(t, 1); auto sh = st->find(tovh(s)); if (sh == st->null_simplex()) return "find none"; r << "find " << F(st->filtration(sh)); return r.str(); }
        if (o == "star") { S s = words(t, 1); std::vector<S> star; for (auto c : st->star_simplex_range(st->find(tovh(s)))) star.push_back(verts(*st, c)); return "star " + Ws(star); }
        if (o == "order") { if (dirty) { st->clear_filtration(); dirty = false; } r << "order"; for (auto sh : st->filtration_simplex_range()) r << " " << W(verts(*st, sh)) << ":" << F(st->filtration(sh)); if (st->num_simplices() == 0) r << " "; return r.str(); }
        if (o == "orderinf") {   // initialize_filtration(ignore_infinite_values = true): the simplices of value >= K are made infinite for the call, then restored
          if constexpr (OPT::store_filtration) {
            long K = L(t[1]); if (dirty) { st->clear_filtration(); dirty = false; }
            std::vector<std::pair<typename ST::Simplex_handle, typename ST::Filtration_value>> saved; size_t kept = 0;
            for (auto sh : st->complex_simplex_range()) { if (F(st->filtration(sh)) >= K) saved.push_back({sh, st->filtration(sh)}); else ++kept; }
            for (auto& p : saved) st->assign_filtration(p.first, std::numeric_limits<typename ST::Filtration_value>::infinity());
            st->clear_filtration(); st->initialize_filtration(true);
            size_t listed = 0; r << "orderinf";
            for (auto sh : st->filtration_simplex_range()) { ++listed; r << " " << W(verts(*st, sh)) << ":"; if (std::isinf(st->filtration(sh))) r << "inf"; else r << F(st->filtration(sh)); }
            if (listed == 0) { r.str(""); r << "orderinf none"; }
            (void)kept;
            for (auto& p : saved) st->assign_filtration(p.first, p.second);
            st->clear_filtration(); return r.str(); }
          return "orderinf none"; }
        return "bad-op"; });
      if (o != "obs") std::cout << "\n"; });
}
