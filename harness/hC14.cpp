// C14 harness: the linear-time 1D routine and the rectangle routine on the real headers.
#include <limits>
#include <cmath>
#include <functional>
#include <gudhi/Persistence_on_a_line.h>
#include <gudhi/Persistence_on_rectangle.h>
#include "common.h"
using vh::Toks; using vh::L;
typedef std::vector<std::pair<long, long>> Pairs;
static std::string show(const Pairs& p) { std::ostringstream o; bool f = true; for (auto& x : p) { if (!f) o << " "; f = false; o << x.first << ":" << x.second; } return o.str(); }
static std::string showsorted(Pairs p) { Pairs q; for (auto& x : p) if (x.first != x.second) q.push_back(x); std::sort(q.begin(), q.end()); return show(q); }

int main() {
  return vh::run([] {}, [&](const Toks& t) {
    std::cout << vh::guarded([&]() -> std::string {
      std::ostringstream r; const std::string& o = t[0];
      if (o == "line" || o == "linegt") {
        std::vector<double> v; for (size_t i = 1; i < t.size(); ++i) v.push_back((double)L(t[i]));
        if (v.empty()) return "empty";
        Pairs out; long m = 0; bool gotmin = false;
        auto cb = [&](double b, double d) { if (std::isinf(d)) { m = (long)b; gotmin = true; } else out.push_back({(long)b, (long)d}); };
        if (o == "line") Gudhi::persistent_cohomology::compute_persistence_of_function_on_line(v, cb);
        else Gudhi::persistent_cohomology::compute_persistence_of_function_on_line(v, cb, std::greater<>());
        r << "min " << (gotmin ? std::to_string(m) : std::string("none")) << "\nbars " << show(out); return r.str(); }
      if (o == "lineidx" || o == "linefloat") {
        std::vector<long> vals; for (size_t i = 1; i < t.size(); ++i) vals.push_back(L(t[i]));
        if (vals.empty()) return "empty";
        Pairs out; long m = 0;
        if (o == "lineidx") {
          std::vector<std::size_t> idx(vals.size()); for (size_t i = 0; i < idx.size(); ++i) idx[i] = i;
          std::vector<std::pair<std::size_t, std::size_t>> calls;
          Gudhi::persistent_cohomology::compute_persistence_of_function_on_line(idx, [&](std::size_t b, std::size_t d) { calls.push_back({b, d}); },
            [&](std::size_t a, std::size_t b) { return vals[a] < vals[b]; });
          // by convention the last call carries the minimum (infinity() of an integer type is 0)
          m = vals[calls.back().first]; calls.pop_back();
          for (auto& c : calls) out.push_back({vals[c.first], vals[c.second]});
        } else {
          std::vector<float> v(vals.begin(), vals.end());
          Gudhi::persistent_cohomology::compute_persistence_of_function_on_line(v, [&](float b, float d) { if (std::isinf(d)) m = (long)b; else out.push_back({(long)b, (long)d}); });
        }
        r << "min " << m << "\nbars " << show(out); return r.str(); }
      if (o == "rect" || o == "rectidx") {
        long nr = L(t[1]), nc = L(t[2]); std::vector<double> in; for (size_t i = 3; i < t.size(); ++i) in.push_back((double)L(t[i]));
        if ((long)in.size() != nr * nc) return "bad-op";
        Pairs h0, h1; long m;
        if (o == "rect") {
          double gm = Gudhi::cubical_complex::persistence_on_rectangle_from_top_cells(in.data(), (std::size_t)nr, (std::size_t)nc,
            [&](double b, double d) { h0.push_back({(long)b, (long)d}); }, [&](double b, double d) { h1.push_back({(long)b, (long)d}); });
          m = (long)gm;
        } else {
          std::size_t gm = Gudhi::cubical_complex::persistence_on_rectangle_from_top_cells<true>(in.data(), (std::size_t)nr, (std::size_t)nc,
            [&](std::size_t b, std::size_t d) { h0.push_back({(long)in.at(b), (long)in.at(d)}); }, [&](std::size_t b, std::size_t d) { h1.push_back({(long)in.at(b), (long)in.at(d)}); });
          m = (long)in.at(gm);
        }
        r << "h0 " << showsorted(h0) << "\nh1 " << showsorted(h1) << "\nmin " << m; return r.str(); }
      return "bad-op"; }) << "\n"; });
}
