// C10 harness: every coefficient class of the repository behind one interface. argv[1] selects the class (= stream).
#include <cassert>
#include <iostream>
#include <gmpxx.h>
#include <memory>
#include <gudhi/Fields/Z2_field.h>
#include <gudhi/Fields/Z2_field_operators.h>
#include <gudhi/Fields/Zp_field.h>
#include <gudhi/Fields/Zp_field_shared.h>
#include <gudhi/Fields/Zp_field_operators.h>
#include <gudhi/Fields/Multi_field.h>
#include <gudhi/Fields/Multi_field_shared.h>
#include <gudhi/Fields/Multi_field_small.h>
#include <gudhi/Fields/Multi_field_small_shared.h>
#include <gudhi/Fields/Multi_field_operators.h>
#include <gudhi/Fields/Multi_field_small_operators.h>
#include <gudhi/Persistent_cohomology/Field_Zp.h>
#include <gudhi/Persistent_cohomology/Multi_field.h>
#include "common.h"
using namespace Gudhi::persistence_fields;
using vh::Toks; using vh::L; using vh::UL;
template <class T> std::string S(const T& x) { std::ostringstream o; o << x; return o.str(); }

struct F { virtual ~F() {} virtual std::string init(const Toks& t) = 0; virtual std::string op(const Toks& t) = 0;
  virtual std::string xfer(int) { return "ok"; } };

// the operator object is passed through copy / move / assignment / swap (both argument positions) against an object `g`
// configured for ANOTHER field: afterwards it must still be the field it was initialised for
template <class Ops> void xfer_ops(Ops& f, Ops& g, int k) {
  switch (k % 6) {
    case 0: { Ops c(f); Ops h(g); h = c; f = h; break; }                 // copy constructor, copy assignment over another field
    case 1: { Ops c(std::move(f)); f = g; f = std::move(c); break; }     // move constructor, move assignment over another field
    case 2: { swap(f, g); swap(g, f); break; }                           // first argument, then second argument
    case 3: { swap(g, f); swap(f, g); break; }                           // second argument, then first argument
    case 4: { Ops c(g); swap(c, f); f = c; break; }                      // swap then assignment from the swapped object
    default: { Ops c(f); swap(f, g); f = g = c; break; } } }

// ---- operator classes with unsigned elements
template <class Ops, bool Multi> struct OpsU : F {
  Ops f;
  std::string xfer(int k) override {
    Ops g;
    if constexpr (Multi) { if (f.get_characteristic() == 6) g.set_characteristic(5, 7); else g.set_characteristic(2, 3); }
    else { g.set_characteristic(f.get_characteristic() == 3 ? 5 : 3); }
    xfer_ops(f, g, k); return "ok"; }
  std::string init(const Toks& t) override {
    if constexpr (Multi) { f.set_characteristic((int)L(t[1]), (int)L(t[2])); return "ok " + S(f.get_characteristic()); }
    else { f.set_characteristic((unsigned)UL(t[1])); return "ok"; } }
  std::string op(const Toks& t) override {
    const std::string& o = t[0];
    if (o == "conv") { if constexpr (Multi) return S(f.get_value((unsigned)UL(t[1]))); else return S(f.get_value((int)L(t[1]))); }
    if (o == "convu") return S(f.get_value((unsigned)UL(t[1])));
    unsigned a = t.size() > 1 ? UL(t[1]) : 0, b = t.size() > 2 ? UL(t[2]) : 0, c = t.size() > 3 ? UL(t[3]) : 0;
    if (o == "add") { unsigned x = a; f.add_inplace(x, b); unsigned r = f.add(a, b); return x == r ? S(r) : "inplace-mismatch"; }
    if (o == "sub") { unsigned x = a; f.subtract_inplace_front(x, b); unsigned y = b; f.subtract_inplace_back(a, y); unsigned r = f.subtract(a, b); return (x == r && y == r) ? S(r) : "inplace-mismatch"; }
    if (o == "mul") { unsigned x = a; f.multiply_inplace(x, b); unsigned r = f.multiply(a, b); return x == r ? S(r) : "inplace-mismatch"; }
    if (o == "mad") { unsigned x = a; f.multiply_and_add_inplace_front(x, b, c); unsigned z = c; f.multiply_and_add_inplace_back(a, b, z); unsigned r = f.multiply_and_add(a, b, c); return (x == r && z == r) ? S(r) : "inplace-mismatch"; }
    if (o == "aam") { unsigned x = a; f.add_and_multiply_inplace_front(x, b, c); unsigned z = c; f.add_and_multiply_inplace_back(a, b, z); unsigned r = f.add_and_multiply(a, b, c); return (x == r && z == r) ? S(r) : "inplace-mismatch"; }
    if (o == "inv") return S(f.get_inverse(a));
    if (o == "eq") return f.are_equal(a, b) ? "1" : "0";
    if (o == "pinv") { auto r = f.get_partial_inverse(a, b); return S(r.first) + " " + S(r.second); }
    if (o == "pid") return S(f.get_partial_multiplicative_identity(a));
    return "bad-op"; } };

// Z2 operators: static-ish interface, characteristic fixed
struct OpsZ2 : F {
  Z2_field_operators f;
  std::string init(const Toks& t) override { if (UL(t[1]) != 2) throw std::invalid_argument("z2 only"); return "ok"; }
  std::string op(const Toks& t) override {
    const std::string& o = t[0];
    if (o == "conv") return S(f.get_value((int)L(t[1])));
    if (o == "convu") return S(f.get_value((unsigned)UL(t[1])));
    unsigned a = t.size() > 1 ? UL(t[1]) : 0, b = t.size() > 2 ? UL(t[2]) : 0, c = t.size() > 3 ? UL(t[3]) : 0;
    if (o == "add") return S((unsigned)f.add(a, b));
    if (o == "sub") return S((unsigned)f.subtract(a, b));
    if (o == "mul") return S((unsigned)f.multiply(a, b));
    if (o == "mad") return S((unsigned)f.multiply_and_add(a, b, c));
    if (o == "aam") return S((unsigned)f.add_and_multiply(a, b, c));
    if (o == "inv") return S((unsigned)f.get_inverse(a));
    if (o == "eq") return f.are_equal(a, b) ? "1" : "0";
    if (o == "pinv") { auto r = f.get_partial_inverse(a, b); return S((unsigned)r.first) + " " + S(r.second); }
    if (o == "pid") return S((unsigned)f.get_partial_multiplicative_identity(a));
    return "bad-op"; } };

// GMP operators
struct OpsGmp : F {
  Multi_field_operators f;
  std::string xfer(int k) override {
    Multi_field_operators g;
    if (f.get_characteristic() == 6) g.set_characteristic(5, 7); else g.set_characteristic(2, 3);
    xfer_ops(f, g, k); return "ok"; }
  std::string init(const Toks& t) override { f.set_characteristic((int)L(t[1]), (int)L(t[2])); return "ok " + f.get_characteristic().get_str(); }
  std::string op(const Toks& t) override {
    const std::string& o = t[0];
    mpz_class a = t.size() > 1 ? mpz_class(t[1]) : mpz_class(0), b = t.size() > 2 ? mpz_class(t[2]) : mpz_class(0), c = t.size() > 3 ? mpz_class(t[3]) : mpz_class(0);
    if (o == "conv" || o == "convu") return f.get_value(a).get_str();
    if (o == "add") return f.add(a, b).get_str();
    if (o == "sub") return f.subtract(a, b).get_str();
    if (o == "mul") return f.multiply(a, b).get_str();
    if (o == "mad") return f.multiply_and_add(a, b, c).get_str();
    if (o == "aam") return f.add_and_multiply(a, b, c).get_str();
    if (o == "inv") return f.get_inverse(a).get_str();
    if (o == "eq") return f.are_equal(a, b) ? "1" : "0";
    if (o == "pinv") { auto r = f.get_partial_inverse(a, b); return r.first.get_str() + " " + r.second.get_str(); }
    if (o == "pid") return f.get_partial_multiplicative_identity(b = a).get_str();
    return "bad-op"; } };

// ---- element classes (value semantics, operators). I = integer type used to construct; Gmp = values are mpz
template <class E> std::string val(const E& e) { return S(e.get_value()); }
template <class E, class I, class Q> struct ElemOps {
  static E mk(const std::string& s, bool sgn) { if constexpr (std::is_same<I, mpz_class>::value) return E(mpz_class(s)); else { if (sgn) return E((int)L(s)); return E((unsigned)UL(s)); } }
  typedef typename std::conditional<std::is_same<I, mpz_class>::value, mpz_class, unsigned int>::type Raw;
  static Raw raw(const std::string& s) { if constexpr (std::is_same<I, mpz_class>::value) return mpz_class(s); else return (unsigned)UL(s); }
  static std::string rs(const Raw& x) { if constexpr (std::is_same<I, mpz_class>::value) return x.get_str(); else return S(x); }
  static std::string op(const Toks& t) {
    const std::string& o = t[0];
    if (o == "conv") return val(mk(t[1], true));
    if (o == "convu") return val(mk(t[1], false));
    E a = t.size() > 1 ? mk(t[1], false) : E(), b = t.size() > 2 ? mk(t[2], false) : E(), c = t.size() > 3 ? mk(t[3], false) : E();
    // every binary operation also in its mixed forms: element (op) integer, element (op)= integer, integer (op) element (which returns a reduced integer),
    // with the integers as given in the history (not reduced), and the mixed equality overloads
    if (o == "add" || o == "sub" || o == "mul") {
      Raw ra = raw(t[1]), rb = raw(t[2]); E x = a, y = a, r, z; Raw w;
      if (o == "add") { x += b; r = a + b; y += rb; z = a + rb; w = ra + b; }
      else if (o == "sub") { x -= b; r = a - b; y -= rb; z = a - rb; w = ra - b; }
      else { x *= b; r = a * b; y *= rb; z = a * rb; w = ra * b; }
      if (!(x == r)) return "inplace-mismatch";
      if (!(y == r) || !(z == r)) return "mixed-mismatch element-op-integer " + val(y) + " " + val(z) + " vs " + val(r);
      if (rs(w) != val(r)) return "mixed-mismatch integer-op-element " + rs(w) + " vs " + val(r);
      if (!(r == w) || !(w == r)) return "mixed-equality-mismatch";
      return val(r); }
    if (o == "mad") return val(a * b + c);
    if (o == "aam") return val((a + b) * c);
    if (o == "inv") return val(a.get_inverse());
    if (o == "eq") return (a == b) ? "1" : "0";
    if (o == "pinv") { Q q; if constexpr (std::is_same<Q, mpz_class>::value) q = mpz_class(t[2]); else q = (Q)UL(t[2]); auto r = a.get_partial_inverse(q); return val(r.first) + " " + S(r.second); }
    if (o == "pid") { Q q; if constexpr (std::is_same<Q, mpz_class>::value) q = mpz_class(t[1]); else q = (Q)UL(t[1]); return val(E::get_partial_multiplicative_identity(q)); }
    return "bad-op"; } };

template <class E, class I, class Q, bool Multi> struct Shared : F {
  std::string init(const Toks& t) override { if constexpr (Multi) { E::initialize((unsigned)UL(t[1]), (unsigned)UL(t[2])); return "ok " + S(E::get_characteristic()); } else { E::initialize((unsigned)UL(t[1])); return "ok"; } }
  std::string op(const Toks& t) override { return ElemOps<E, I, Q>::op(t); } };

// static classes: a table of instantiations
struct StaticZp : F {
  unsigned p = 0;
  std::string init(const Toks& t) override { p = UL(t[1]); switch (p) { case 2: case 3: case 5: case 7: case 13: case 31: case 251: case 32749: case 65521: return "ok"; default: throw std::invalid_argument("not instantiated"); } }
  std::string op(const Toks& t) override {
    switch (p) {
#define ZP(P) case P: return ElemOps<Zp_field_element<P>, unsigned, unsigned>::op(t);
      ZP(2) ZP(3) ZP(5) ZP(7) ZP(13) ZP(31) ZP(251) ZP(32749) ZP(65521)
    } return "bad-op"; } };
struct ElemZ2 : F {
  std::string init(const Toks& t) override { if (UL(t[1]) != 2) throw std::invalid_argument("z2 only"); return "ok"; }
  std::string op(const Toks& t) override { return ElemOps<Z2_field_element, unsigned, unsigned>::op(t); } };
template <template <unsigned, unsigned> class E, class I, class Q> struct StaticMulti : F {
  int k = -1;
  std::string init(const Toks& t) override {
    unsigned lo = UL(t[1]), hi = UL(t[2]);
    if (lo == 2 && hi == 3) { k = 0; return "ok " + S(E<2, 3>::get_characteristic()); }
    if (lo == 2 && hi == 5) { k = 1; return "ok " + S(E<2, 5>::get_characteristic()); }
    if (lo == 3 && hi == 11) { k = 2; return "ok " + S(E<3, 11>::get_characteristic()); }
    if (lo == 5 && hi == 13) { k = 3; return "ok " + S(E<5, 13>::get_characteristic()); }
    if (lo == 2 && hi == 23) { k = 4; return "ok " + S(E<2, 23>::get_characteristic()); }
    if (lo == 7 && hi == 7) { k = 5; return "ok " + S(E<7, 7>::get_characteristic()); }
    throw std::invalid_argument("not instantiated"); }
  std::string op(const Toks& t) override {
    switch (k) { case 0: return ElemOps<E<2, 3>, I, Q>::op(t); case 1: return ElemOps<E<2, 5>, I, Q>::op(t); case 2: return ElemOps<E<3, 11>, I, Q>::op(t);
      case 3: return ElemOps<E<5, 13>, I, Q>::op(t); case 4: return ElemOps<E<2, 23>, I, Q>::op(t); case 5: return ElemOps<E<7, 7>, I, Q>::op(t); }
    return "bad-op"; } };
template <unsigned a, unsigned b> using SmallE = Multi_field_element_with_small_characteristics<a, b>;
template <unsigned a, unsigned b> using GmpE = Multi_field_element<a, b>;

// ---- cohomology coefficient classes
struct CohZp : F {
  Gudhi::persistent_cohomology::Field_Zp f; int p = 0;
  std::string init(const Toks& t) override { f.init((int)L(t[1])); p = f.characteristic(); return "ok"; }
  std::string op(const Toks& t) override {
    const std::string& o = t[0];
    int a = t.size() > 1 ? L(t[1]) : 0, b = t.size() > 2 ? L(t[2]) : 0, c = t.size() > 3 ? L(t[3]) : 0;
    if (o == "add") return S(f.plus_equal(a, b));
    if (o == "mul") return S(f.times(a, b));
    if (o == "mad") return S(f.plus_times_equal(c, a, b));   // c + b*a
    if (o == "negmul") return S(f.times_minus(a, b));
    if (o == "inv") return S(f.inverse(a, p).first);
    if (o == "pinv") { auto r = f.inverse(a, b); return S(r.first) + " " + S(r.second); }
    if (o == "pid") return S(f.multiplicative_identity(a));
    return "bad-op"; } };
struct CohMulti : F {
  std::unique_ptr<Gudhi::persistent_cohomology::Multi_field> f;
  // one object per history: a second `init` re-initialises the same object (it must leave no trace of the first range)
  std::string init(const Toks& t) override { if (!f) f.reset(new Gudhi::persistent_cohomology::Multi_field()); f->init((int)L(t[1]), (int)L(t[2])); if (f->characteristic() <= 1) throw std::invalid_argument("no prime"); return "ok " + f->characteristic().get_str(); }
  std::string op(const Toks& t) override {
    const std::string& o = t[0];
    mpz_class a = t.size() > 1 ? mpz_class(t[1]) : mpz_class(0), b = t.size() > 2 ? mpz_class(t[2]) : mpz_class(0), c = t.size() > 3 ? mpz_class(t[3]) : mpz_class(0);
    if (o == "add") return f->plus_equal(a, b).get_str();
    if (o == "mul") return f->times(a, b).get_str();
    if (o == "mad") return f->plus_times_equal(c, a, b).get_str();
    if (o == "negmul") return f->times_minus(a, b).get_str();
    if (o == "inv") return f->inverse(a, f->characteristic()).first.get_str();
    if (o == "pinv") { auto r = f->inverse(a, b); return r.first.get_str() + " " + r.second.get_str(); }
    if (o == "pid") return f->multiplicative_identity(a).get_str();
    return "bad-op"; } };

F* make(const std::string& s) {
  if (s == "zp_ops") return new OpsU<Zp_field_operators<>, false>();
  if (s == "zp_shared") return new Shared<Shared_Zp_field_element<>, unsigned, unsigned, false>();
  if (s == "zp_static") return new StaticZp();
  if (s == "z2_ops") return new OpsZ2();
  if (s == "z2_elem") return new ElemZ2();
  if (s == "ms_ops") return new OpsU<Multi_field_operators_with_small_characteristics, true>();
  if (s == "ms_shared") return new Shared<Shared_multi_field_element_with_small_characteristics<>, unsigned, unsigned, true>();
  if (s == "ms_static") return new StaticMulti<SmallE, unsigned, unsigned>();
  if (s == "mg_ops") return new OpsGmp();
  if (s == "mg_shared") return new Shared<Shared_multi_field_element, mpz_class, mpz_class, true>();
  if (s == "mg_static") return new StaticMulti<GmpE, mpz_class, mpz_class>();
  if (s == "coh_zp") return new CohZp();
  if (s == "coh_multi") return new CohMulti();
  return nullptr; }

int main(int argc, char** argv) {
  std::string kind = argc > 1 ? argv[1] : "zp_ops";
  std::unique_ptr<F> f; bool live = false;
  return vh::run([&] { f.reset(make(kind)); live = false; },
    [&](const Toks& t) {
      bool multi = (kind[0] == 'm' || kind == "coh_multi");
      if ((t[0] == "zp" && multi) || (t[0] == "multi" && !multi)) { live = false; std::cout << "wrong-family\n"; return; }
      if (t[0] == "zp" || t[0] == "multi") { std::string r = vh::guarded([&] { return f->init(t); }); live = (r.substr(0, 2) == "ok"); if (!live) f.reset(make(kind)); std::cout << r << "\n"; return; }
      if (!live) { std::cout << "no-field\n"; return; }
      if (t[0] == "xfer") { std::cout << vh::guarded([&] { return f->xfer((int)L(t[1])); }) << "\n"; return; }
      std::cout << vh::guarded([&] { return f->op(t); }) << "\n"; });
}
