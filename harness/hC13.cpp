// C13 harness: plain and periodic cubical complexes (real classes), structure + persistence.
#include <cmath>
#include <map>
#include <gudhi/Bitmap_cubical_complex.h>
#include <gudhi/Bitmap_cubical_complex_base.h>
#include <gudhi/Bitmap_cubical_complex_periodic_boundary_conditions_base.h>
#include <gudhi/Persistent_cohomology.h>
#include "common.h"
using vh::Toks; using vh::L;
typedef Gudhi::cubical_complex::Bitmap_cubical_complex_base<double> B0;
typedef Gudhi::cubical_complex::Bitmap_cubical_complex_periodic_boundary_conditions_base<double> BP;
typedef Gudhi::cubical_complex::Bitmap_cubical_complex<B0> C0;
typedef Gudhi::cubical_complex::Bitmap_cubical_complex<BP> CP;
// the token 1000000 (resp. -1000000) stands for +infinity (resp. -infinity) in the protocol
static double IN(long v) { return v >= 1000000 ? INFINITY : v <= -1000000 ? -INFINITY : (double)v; }
static std::string V(double x) { if (std::isinf(x)) return x > 0 ? "1000000" : "-1000000"; return std::to_string((long)std::llround(x)); }

template <class C> void cells(C& c) {
  for (std::size_t x = 0; x < c.size(); ++x) {
    auto bd = c.get_boundary_of_a_cell(x); auto cb = c.get_coboundary_of_a_cell(x);
    std::sort(bd.begin(), bd.end()); std::sort(cb.begin(), cb.end());
    std::cout << "c " << x << " d=" << c.get_dimension_of_a_cell(x) << " v=" << V(c.get_cell_data(x)) << " bd=[" << vh::join(bd) << "] cbd=[" << vh::join(cb) << "]\n"; } }
template <class C> std::string dd0(C& c) {
  bool ok1 = true, ok2 = true;
  for (std::size_t x = 0; x < c.size(); ++x) {
    auto bd = c.get_boundary_of_a_cell(x);
    std::map<std::size_t, int> acc; int sgn = 1; for (auto f : bd) { int s2 = 1; for (auto e : c.get_boundary_of_a_cell(f)) { acc[e] += sgn * s2; s2 = -s2; } sgn = -sgn; }
    for (auto& kv : acc) if (kv.second != 0) ok1 = false;
    std::map<std::size_t, int> acc2; try { for (auto f : bd) { int i1 = c.compute_incidence_between_cells(x, f); for (auto e : c.get_boundary_of_a_cell(f)) acc2[e] += i1 * c.compute_incidence_between_cells(f, e); } } catch (...) { ok2 = false; }
    for (auto& kv : acc2) if (kv.second != 0) ok2 = false; }
  return std::string("dd0 ") + (ok1 ? "1" : "0") + " " + (ok2 ? "1" : "0"); }
template <class C> std::string order(C& c) { std::ostringstream o; o << "order"; for (auto sh : c.filtration_simplex_range()) o << " " << sh; return o.str(); }
template <class C> std::string bars(C& c, int p) {
  Gudhi::persistent_cohomology::Persistent_cohomology<C, Gudhi::persistent_cohomology::Field_Zp> pc(c, true); pc.init_coefficients(p); pc.compute_persistent_cohomology(-1);
  std::vector<std::tuple<int, double, double, bool>> b;
  for (auto& pr : pc.get_persistent_pairs()) { double bb = c.filtration(std::get<0>(pr)); bool inf = std::get<1>(pr) == c.null_simplex(); double dd = inf ? INFINITY : c.filtration(std::get<1>(pr)); if (inf || bb != dd) b.push_back({c.dimension(std::get<0>(pr)), bb, dd, inf}); }
  std::sort(b.begin(), b.end()); std::ostringstream o; o << "bars"; for (auto& t : b) o << " " << std::get<0>(t) << ":" << V(std::get<1>(t)) << ":" << (std::get<3>(t) ? std::string("inf") : V(std::get<2>(t))); return o.str(); }

int main() {
  std::unique_ptr<C0> c0; std::unique_ptr<CP> cp;
  return vh::run([&] { c0.reset(); cp.reset(); }, [&](const Toks& t) {
    std::string r = vh::guarded([&]() -> std::string {
      const std::string& o = t[0];
      if (o == "cub") { bool top = t[1] == "top", per = t[2] == "per"; int d = (int)L(t[3]); std::vector<unsigned> sizes; std::vector<bool> mask; std::vector<double> vals;
        for (int i = 0; i < d; ++i) sizes.push_back((unsigned)L(t[4 + i])); for (int i = 0; i < d; ++i) mask.push_back(L(t[4 + d + i]) != 0); for (size_t i = 4 + 2 * d; i < t.size(); ++i) vals.push_back(IN(L(t[i])));
        c0.reset(); cp.reset();
        if (per) { cp.reset(new CP(sizes, vals, mask, top)); return "size " + std::to_string(cp->size()); }
        c0.reset(new C0(sizes, vals, top)); return "size " + std::to_string(c0->size()); }
      if (!c0 && !cp) return "no-complex";
      if (o == "cells") { if (cp) cells(*cp); else cells(*c0); return ""; }
      if (o == "dd0") return cp ? dd0(*cp) : dd0(*c0);
      if (o == "order") return cp ? order(*cp) : order(*c0);
      if (o == "bars") return cp ? bars(*cp, (int)L(t[1])) : bars(*c0, (int)L(t[1]));
      return "bad-op"; });
    if (!r.empty()) std::cout << r << "\n"; });
}
