// Persistence-matrix harness (C05, C06, C08): one instantiation of Gudhi::persistence_matrix::Matrix per binary.
//   -DCOLT=<Column_types member> -DFLAV=0|1|2 (R only / RU / chain) -DIDX=CONTAINER|POSITION|IDENTIFIER
//   -DVINE -DREP -DRMCOL -DROWS -DINTRROWS -DRMROWS -DMAPC -DZ2ONLY (each 0/1)
// The harness keeps the current filtration (cell ids in order, boundaries by id) itself; the matrix is only driven and
// observed.  Observations: barcode in positions, and the defining identities evaluated on the real columns.
#include <map>
#include <set>
#include <gudhi/Matrix.h>
#include <gudhi/persistence_matrix_options.h>
#include <gudhi/Fields/Zp_field_operators.h>
#include "common.h"
using vh::Toks; using vh::L;
using namespace Gudhi::persistence_matrix;
#ifndef COLT
#define COLT INTRUSIVE_SET
#endif
#ifndef FLAV
#define FLAV 1
#endif
#ifndef IDX
#define IDX CONTAINER
#endif
#ifndef VINE
#define VINE 0
#endif
#ifndef REP
#define REP 0
#endif
#ifndef RMCOL
#define RMCOL 0
#endif
#ifndef ROWS
#define ROWS 0
#endif
#ifndef INTRROWS
#define INTRROWS 1
#endif
#ifndef RMROWS
#define RMROWS 0
#endif
#ifndef PAIR
#define PAIR 1     // 0: no stored barcode (RU only): the harness reads the pairing off the pivots of R
#endif
#ifndef MAPC
#define MAPC 0
#endif
#ifndef Z2ONLY
#define Z2ONLY 1
#endif
#ifndef MAXDIM
#define MAXDIM 0
#endif
using Zp = Gudhi::persistence_fields::Zp_field_operators<>;
struct Opt : Default_options<Column_types::COLT, Z2ONLY != 0, Zp> {
  static const bool has_column_pairings = PAIR;
  static const bool is_of_boundary_type = (FLAV != 2);
  static const bool has_vine_update = (VINE != 0);
  static const bool can_retrieve_representative_cycles = (REP != 0);
  static const Column_indexation_types column_indexation_type = Column_indexation_types::IDX;
  static const bool has_removable_columns = (RMCOL != 0);
  static const bool has_row_access = (ROWS != 0);
  static const bool has_intrusive_rows = (INTRROWS != 0);
  static const bool has_removable_rows = (RMROWS != 0);
  static const bool has_map_column_container = (MAPC != 0);
  static const bool has_matrix_maximal_dimension_access = (MAXDIM != 0);
};
typedef Matrix<Opt> M;
template <class MM, class O> struct H {
static void pushE(std::vector<unsigned>& v, long r, long) { v.push_back((unsigned)r); }
static void pushE(std::vector<std::pair<unsigned, unsigned> >& v, long r, long c) { v.push_back({(unsigned)r, (unsigned)c}); }
typedef std::map<long, long> Vec;   // sparse vector: index -> coefficient in [1,p)
static const bool kChain = !O::is_of_boundary_type;
static const bool kHasU = O::is_of_boundary_type && (O::has_vine_update || O::can_retrieve_representative_cycles) &&
                            O::column_indexation_type != Column_indexation_types::IDENTIFIER;   // get_column(i, false) is only offered with position indexing
static const bool kIdId = O::column_indexation_type == Column_indexation_types::IDENTIFIER;
static const bool kIdPos = O::column_indexation_type == Column_indexation_types::POSITION;

struct State {
  std::unique_ptr<MM> m; long p = 2;
  std::vector<long> order;                 // cell ids in filtration order
  std::map<long, Vec> bd; std::map<long, int> dim;
  std::vector<long> matidx;                // chain + CONTAINER: MatIdx of the column of the cell at each position
  std::map<long, long> libid;              // boundary-type, default mode: identifier the library gave the cell at insertion
  std::map<long, long> cur;                // boundary-type matrices: stable cell id -> identifier currently naming its row/column
  long inserted = 0; bool custom = false; bool removed = false;   // custom: ids differ from the insertion count, the id-taking overload is used
};
static long md(long a, long p) { long r = a % p; return r < 0 ? r + p : r; }
static void axpy(Vec& a, long c, const Vec& b, long p) { for (auto& kv : b) { long v = md(a.count(kv.first) ? a[kv.first] + c * kv.second : c * kv.second, p); if (v) a[kv.first] = v; else a.erase(kv.first); } }
static long posOf(const State& s, long id) { for (size_t i = 0; i < s.order.size(); ++i) if (s.order[i] == id) return (long)i; return -1; }

// index to hand to get_column / get_pivot ... for the cell at position pos
static unsigned colIndex(const State& s, long pos) {
  if (kIdId) return (unsigned)(kChain || s.custom ? s.order[pos] : s.libid.at(s.order[pos]));   // identifier indexing names columns by the identifier given at insertion (rows of boundary-type matrices follow `cur`)
  if (kIdPos || !kChain) return (unsigned)pos;
  return (unsigned)s.matidx[pos]; }

// a VECTOR column erases lazily ("lazy removal method" of the documentation): its iterators still show erased entries, its
// content is read through get_content(); every other column type is read through its iterators
static const bool kLazyColumn = std::is_same<typename MM::Column, typename MM::Matrix_vector_column>::value;
template <class Col> static Vec content(const Col& c, long p) { Vec v;
  if constexpr (kLazyColumn) { auto dense = c.get_content(256); for (long r = 0; r < (long)dense.size(); ++r) { long x = O::is_z2 ? (dense[r] ? 1 : 0) : (long)dense[r] % p; if (x) v[r] = x; } return v; }
  else for (const auto& e : c) { long x = 1; if constexpr (!O::is_z2) x = (long)e.get_element() % p; if (x) { long r = (long)e.get_row_index(); v[r] = md((v.count(r) ? v[r] : 0) + x, p); if (!v[r]) v.erase(r); } } return v; }

// the barcode in positions: the stored one, or (no stored barcode, boundary-type matrices) the pairing read off the pivots of R
static std::vector<std::tuple<int, long, long>> barcode_of(State& s) {
  std::vector<std::tuple<int, long, long>> b;
  if constexpr (O::has_column_pairings) {
    for (auto& bar : s.m->get_current_barcode()) b.push_back({bar.dim, (long)bar.birth, bar.death == (decltype(bar.death))-1 ? -1 : (long)bar.death});
  } else {
    long n = (long)s.order.size(); std::map<long, long> rowPos; for (long i = 0; i < n; ++i) rowPos[s.cur.at(s.order[i])] = i;
    std::map<long, long> lows;
    for (long j = 0; j < n; ++j) { Vec c = content(s.m->get_column(colIndex(s, j)), s.p); long low = -1; for (auto& kv : c) { auto it = rowPos.find(kv.first); if (it != rowPos.end()) low = std::max(low, it->second); } if (low >= 0) lows[low] = j; else if (!c.empty()) lows[-2 - j] = j; }
    for (auto& kv : lows) if (kv.first >= 0) b.push_back({(int)s.dim[s.order[kv.first]], kv.first, kv.second});
    std::set<long> deaths; for (auto& kv : lows) deaths.insert(kv.second);
    for (long j = 0; j < n; ++j) if (!lows.count(j) && !deaths.count(j)) b.push_back({(int)s.dim[s.order[j]], j, -1});
  }
  return b; }

static std::string bars(State& s) {
  std::vector<std::tuple<int, long, long>> b = barcode_of(s);
  std::sort(b.begin(), b.end());
  std::ostringstream o; o << "bars"; for (auto& t : b) { o << " " << std::get<0>(t) << ":" << std::get<1>(t) << ":"; if (std::get<2>(t) < 0) o << "inf"; else o << std::get<2>(t); }
  return o.str(); }

// the defining identities on the real columns; "ident 1" or the first failing clause
static std::string ident(State& s) {
  long n = (long)s.order.size(); long p = s.p;
  std::vector<std::tuple<int, long, long>> b = barcode_of(s);
  if constexpr (!kChain) {
    // rows are in position coordinates (ids are handed out in insertion order and swapped together with the rows)
    std::vector<Vec> R(n), B(n);
    // row identifiers: the identifiers still present, in increasing order, sit at positions 0, 1, ... (a swap exchanges the row identifiers with the cells)
    std::map<long, long> rowPos; for (long i = 0; i < n; ++i) rowPos[s.cur.at(s.order[i])] = i;
    auto toPos = [&](const Vec& v, bool& ok) { Vec w; for (auto& kv : v) { auto it = rowPos.find(kv.first); if (it == rowPos.end()) { ok = false; continue; } w[it->second] = kv.second; } return w; };
    bool rowsOk = true;
    for (long j = 0; j < n; ++j) { R[j] = toPos(content(s.m->get_column(colIndex(s, j)), p), rowsOk); for (auto& kv : s.bd[s.order[j]]) B[j][posOf(s, kv.first)] = kv.second; }
    if (!rowsOk) return "ident R-has-a-row-that-is-no-cell";
    // reduced: distinct lowest entries; barcode = {(low R_j, j)} + zero unpaired columns
    std::map<long, long> lows; for (long j = 0; j < n; ++j) if (!R[j].empty()) { long l = R[j].rbegin()->first; if (lows.count(l)) return "ident R-not-reduced"; lows[l] = j; }
    std::set<std::pair<long, long>> want, got; for (auto& kv : lows) want.insert({kv.first, kv.second});
    for (long j = 0; j < n; ++j) if (R[j].empty() && !lows.count(j)) want.insert({j, -1});
    for (auto& t : b) got.insert({std::get<1>(t), std::get<2>(t)});
    if (want != got) return "ident barcode-is-not-the-pairing-of-R";
    for (auto& t : b) if (std::get<0>(t) != s.dim[s.order[std::get<1>(t)]]) return "ident bar-dimension";
    for (long j = 0; j < n; ++j) { if ((long)s.m->get_column_dimension(colIndex(s, j)) != s.dim[s.order[j]]) return "ident column-dimension"; }
    if constexpr (O::is_of_boundary_type) {
      for (auto& kv : lows) { unsigned piv = (unsigned)s.m->get_pivot(colIndex(s, kv.second)); long pr = kIdId ? posOf(s, piv) : (long)piv; (void)pr;
        if (!rowPos.count((long)piv) || rowPos[(long)piv] != kv.first) return "ident get_pivot"; }
    }
    if constexpr (kHasU) {
      // B = R * U with U upper triangular with non-zero diagonal
      std::vector<Vec> U(n);
      for (long j = 0; j < n; ++j) U[j] = content(s.m->get_column(colIndex(s, j), false), p);
      if constexpr (O::is_z2) {
        // over Z2 the stored factor is the transpose: stored column i = row i of U
        std::vector<Vec> T(n); for (long i = 0; i < n; ++i) for (auto& kv : U[i]) { if (kv.first >= n) return "ident U-has-an-entry-beyond-the-last-cell"; T[kv.first][i] = kv.second; } U.swap(T);
      }
      for (long j = 0; j < n; ++j) { if (!U[j].count(j)) return "ident U-diagonal-zero"; if (U[j].rbegin()->first > j) return "ident U-not-upper-triangular"; }
      if constexpr (O::is_z2) {
        for (long j = 0; j < n; ++j) { Vec acc; for (auto& kv : U[j]) axpy(acc, kv.second, R[kv.first], p); if (acc != B[j]) return "ident B!=R*U"; }
      } else {
        // over Zp the stored factor is V with R = B * V
        for (long j = 0; j < n; ++j) { Vec acc; for (auto& kv : U[j]) axpy(acc, kv.second, B[kv.first], p); if (acc != R[j]) return "ident R!=B*V"; }
      }
    }
  } else {
    // chain columns in id coordinates; leading cell = entry of largest position
    std::vector<Vec> C(n); std::map<long, long> lead;
    for (long j = 0; j < n; ++j) { C[j] = content(s.m->get_column(colIndex(s, j)), p); if (C[j].empty()) return "ident empty-chain-column";
      long best = -1; for (auto& kv : C[j]) best = std::max(best, posOf(s, kv.first)); if (best != j) return "ident leading-cell-of-the-column-at-a-position-is-not-that-cell";
      int d = -2; for (auto& kv : C[j]) { int dd = s.dim[kv.first]; if (d == -2) d = dd; else if (d != dd) return "ident mixed-dimensions-in-chain"; } }
    auto boundaryOf = [&](const Vec& c) { Vec acc; for (auto& kv : c) axpy(acc, kv.second, s.bd[kv.first], p); return acc; };
    std::set<long> paired;
    for (auto& t : b) { long bi = std::get<1>(t), di = std::get<2>(t); paired.insert(bi); if (di >= 0) paired.insert(di);
      if (std::get<0>(t) != s.dim[s.order[bi]]) return "ident bar-dimension";
      if (!boundaryOf(C[bi]).empty()) return "ident birth-column-is-not-a-cycle";
      if (di >= 0) { Vec bdz = boundaryOf(C[di]); // proportional to C[bi]
        if (bdz.empty()) return "ident paired-column-has-zero-boundary";
        long lc = C[bi].at(s.order[bi]); if (!bdz.count(s.order[bi])) return "ident boundary-of-death-column-misses-birth-cell";
        long ratio = md(bdz[s.order[bi]] * (long)1, p); Vec scaled; for (auto& kv : C[bi]) { long inv = 1; for (long x = 1; x < p; ++x) if (md(x * lc, p) == 1) inv = x; scaled[kv.first] = md(kv.second * inv % p * ratio, p); }
        if (scaled != bdz) return "ident boundary-of-death-column-is-not-its-partner"; } }
    if ((long)paired.size() != n) return "ident barcode-does-not-cover-all-cells";
    for (long j = 0; j < n; ++j) { if ((long)s.m->get_column_dimension(colIndex(s, j)) != s.dim[s.order[j]]) return "ident column-dimension"; }
  }
  return "ident 1"; }

static int run() {
  State s;
  return vh::run([&] { s = State(); }, [&](const Toks& t) {
    std::string r = vh::guarded([&]() -> std::string {
      const std::string& o = t[0];
      if (o == "new") { s = State(); s.p = O::is_z2 ? 2 : L(t[1]); if (O::is_z2 && L(t[1]) != 2) return "z2-only"; if constexpr (O::is_z2) s.m.reset(new MM()); else s.m.reset(new MM(0u, (unsigned)s.p)); return "new"; }
      if (!s.m) return "no-matrix";
      if (o == "ins") {  // ins id dim r:c ...   (boundary by ids, increasing)
        long id = L(t[1]); int d = (int)L(t[2]); Vec b; std::vector<typename std::conditional<O::is_z2, unsigned, std::pair<unsigned, unsigned> >::type> bvec;
        for (size_t i = 3; i < t.size(); ++i) { auto k = t[i].find(':'); long row = L(t[i].substr(0, k)); long c = md(L(t[i].substr(k + 1)), s.p); if (!c) continue; b[row] = c; }
        { Vec tb; for (auto& kv : b) tb[kChain ? kv.first : s.cur.at(kv.first)] = kv.second; for (auto& kv : tb) pushE(bvec, kv.first, kv.second); }
        s.cur[id] = id;
        s.bd[id] = b; s.dim[id] = d;
        // boundary-type matrices in default mode: the library numbers the cells itself (identifier = position at insertion);
        // chain matrices and the custom mode (op `ids custom`) use the identifier-taking overload
        if (!kChain && !s.custom) { s.cur[id] = (long)s.order.size(); s.libid[id] = (long)s.order.size(); s.m->insert_boundary(bvec, d); }
        else if (kChain && !s.custom && !s.removed && id == s.inserted && (id % 2 == 0)) s.m->insert_boundary(bvec, d);   // chain matrix numbering the cell itself (every other cell, while nothing was removed)
        else s.m->insert_boundary((unsigned)id, bvec, d);
        s.order.push_back(id); if constexpr (kChain && !kIdId && !kIdPos) s.matidx.push_back((long)s.m->get_column_with_pivot((unsigned)id)); else s.matidx.push_back(0); ++s.inserted; return "ins"; }
      if (o == "ids") { s.custom = (t[1] == "custom"); return "ids"; }
      if (o == "dup") {  // C15: replace the matrix by a copy / moved / swapped version of itself; the source is mutated (copies) and destroyed
        long k = L(t[1]); std::unique_ptr<MM> n; auto fresh = [&]() { if constexpr (O::is_z2) n.reset(new MM()); else n.reset(new MM(0u, (unsigned)s.p)); };
        if (k == 0) n.reset(new MM(*s.m));
        else if (k == 1) { fresh(); *n = *s.m; }
        else if (k == 2) n.reset(new MM(std::move(*s.m)));
        else if (k == 3) { fresh(); *n = std::move(*s.m); }
        else { fresh(); using std::swap; swap(*n, *s.m); }
        if (k <= 1) {  // the source gets one more vertex before it dies: the copy must not see it
          std::vector<typename std::conditional<O::is_z2, unsigned, std::pair<unsigned, unsigned> >::type> e; long mx = 0; for (auto& kv : s.dim) mx = std::max(mx, kv.first + 1); mx = std::max(mx, (long)s.inserted);
          if (!kChain && !s.custom) s.m->insert_boundary(e, 0); else s.m->insert_boundary((unsigned)mx, e, 0); }
        s.m = std::move(n); return "dup"; }
      if (o == "bars") return bars(s);
      if (o == "ident") return ident(s);
      if (o == "dump") { std::ostringstream q; q << "dump"; for (long j = 0; j < (long)s.order.size(); ++j) { q << " | c" << j << "(id" << s.order[j] << ",cur" << (s.cur.count(s.order[j]) ? s.cur[s.order[j]] : -1) << "):"; for (auto& kv : content(s.m->get_column(colIndex(s, j)), s.p)) q << " " << kv.first;
          if constexpr (kHasU) { q << " U:"; for (auto& kv : content(s.m->get_column(colIndex(s, j), false), s.p)) q << " " << kv.first; } } return q.str(); }
      if (o == "ncols") return "ncols " + std::to_string(s.m->get_number_of_columns());
      if constexpr (O::has_removable_columns && (O::is_of_boundary_type || O::has_map_column_container || !O::has_vine_update)) {
        if (o == "rmlast") { if (s.order.empty()) return "rmlast"; s.removed = true; s.m->remove_last(); long id = s.order.back(); s.order.pop_back(); s.matidx.pop_back(); s.bd.erase(id); s.dim.erase(id); s.cur.erase(id); return "rmlast"; }
      }
      if constexpr (O::has_vine_update) {
        if (o == "swap") { long i = L(t[1]); std::vector<std::tuple<int, long, long>> before, after;
          before = barcode_of(s);
          std::string ret;
          if constexpr ((O::is_of_boundary_type && !kIdId) || (!O::is_of_boundary_type && kIdPos)) { bool r = s.m->vine_swap((unsigned)i); ret = r ? "1" : "0"; }
          else if constexpr (kIdId) { s.m->vine_swap((unsigned)colIndex(s, i), (unsigned)colIndex(s, i + 1)); ret = "idx"; }
          else { unsigned r = s.m->vine_swap((unsigned)s.matidx[i], (unsigned)s.matidx[i + 1]); unsigned other = (r == (unsigned)s.matidx[i]) ? s.matidx[i + 1] : s.matidx[i]; s.matidx[i + 1] = r; s.matidx[i] = other; ret = "idx"; }
          if constexpr (!kChain) std::swap(s.cur.at(s.order[i]), s.cur.at(s.order[i + 1]));
          std::swap(s.order[i], s.order[i + 1]);
          after = barcode_of(s);
          std::sort(before.begin(), before.end()); std::sort(after.begin(), after.end());
          auto exch = before; for (auto& x : exch) { long& bi = std::get<1>(x); long& di = std::get<2>(x); if (bi == i) bi = i + 1; else if (bi == i + 1) bi = i; if (di == i) di = i + 1; else if (di == i + 1) di = i; } std::sort(exch.begin(), exch.end());
          bool kept = (after == exch), unchanged = (after == before);
          if (ret == "idx") return (kept || unchanged) ? "swap ok" : "swap barcode-neither-exchanged-nor-unchanged";
          // documented: true = the barcode changed (the cells exchanged their bars = barcode in positions unchanged ... see DESIGN C06)
          bool truthful = (ret == "1" && kept) || (ret == "0" && unchanged);
          return truthful ? "swap ok" : ("swap untruthful ret=" + ret + (kept ? " kept" : "") + (unchanged ? " unchanged" : "")); }
      }
      if constexpr (O::has_vine_update && O::has_removable_columns && (O::is_of_boundary_type || O::has_map_column_container)) {
        if (o == "rmmax") { s.removed = true; long i = L(t[1]); long id = s.order[i];
          if constexpr (O::is_of_boundary_type) {
            s.m->remove_maximal_cell(colIndex(s, i));
            // the cell travels to the end: every later cell takes the identifier of its predecessor
            for (long k = i; k + 1 < (long)s.order.size(); ++k) std::swap(s.cur.at(id), s.cur.at(s.order[k + 1]));
          } else { s.m->remove_maximal_cell(kIdPos ? (unsigned)i : (unsigned)id); }
          s.cur.erase(id);
          s.order.erase(s.order.begin() + i); s.bd.erase(id); s.dim.erase(id);
          s.matidx.clear(); for (size_t k = 0; k < s.order.size(); ++k) s.matidx.push_back(kChain && !kIdId && !kIdPos ? s.m->get_column_with_pivot((unsigned)s.order[k]) : (unsigned)k);
          return "rmmax"; }
      }
      if constexpr (O::can_retrieve_representative_cycles) {
        if (o == "cycles") { s.m->update_representative_cycles(); auto& cycles = s.m->get_representative_cycles();
          std::set<long> births; for (auto& t_ : barcode_of(s)) births.insert(std::get<1>(t_));
          if (cycles.size() != births.size()) return "cycles count " + std::to_string(cycles.size()) + " bars " + std::to_string(births.size());
          std::set<long> young;
          for (auto& c : cycles) { Vec acc; long mx = -1; int d = -2;
            // entries are row indices: positions for RU (rows follow positions), ids for chain
            for (auto cell : c) { long id; long coef = 1;
              id = kChain ? (long)cell : s.order[(long)cell];
              axpy(acc, coef, s.bd[id], s.p); mx = std::max(mx, posOf(s, id)); int dd = s.dim[id]; if (d == -2) d = dd; else if (d != dd) return "cycles mixed-dimensions"; }
            if (O::is_z2 && !acc.empty()) return "cycles non-zero-boundary";
            young.insert(mx); }
          if (young != births) return "cycles youngest-cells-are-not-the-births";
          return "cycles ok " + std::to_string(cycles.size()); }
      }
      return "unsupported"; });
    std::cout << r << "\n"; });
}
};
int main() { return H<M, Opt>::run(); }
