// Landscape harness (C18): exact piecewise-linear form and gridded form of persistence landscapes.  Abscissae of the protocol are
// quarter units (interval end points are integers = multiples of 4 quarter units), ordinates are printed in units of 1/64.
#include <iostream>
#include <cmath>
#include <limits>
#include <gudhi/Persistence_landscape.h>
#include <gudhi/Persistence_landscape_on_grid.h>
#include "common.h"
using vh::Toks; using vh::L;
using namespace Gudhi::Persistence_representations;
typedef std::vector<std::pair<double, double> > Diag;

static std::string num(double v) { char b[64]; std::snprintf(b, sizeof b, "%.9f", v); return b; }
static std::string q64(double v) { double s = v * 64; double r = std::round(s); if (std::fabs(s - r) > 1e-6) return "x" + num(v); long k = (long)r; return std::to_string(k == 0 ? 0 : k); }
static Diag diag_at(const Toks& t, size_t i) { long n = L(t[i]); Diag d; for (long k = 0; k < n; ++k) d.push_back({(double)L(t[i + 1 + 2 * k]), (double)L(t[i + 2 + 2 * k])}); return d; }

int main() {
  std::vector<Persistence_landscape> E(6); std::vector<Persistence_landscape_on_grid> G(6); long lo = -4, hi = 52;
  return vh::run([&] { E.assign(6, Persistence_landscape()); G.assign(6, Persistence_landscape_on_grid()); lo = -4; hi = 52; },
    [&](const Toks& t) {
      const std::string& o = t[0];
      std::string out;
      try { out = vh::guarded([&]() -> std::string {
        std::ostringstream r;
        if (o == "window") { lo = L(t[1]); hi = L(t[2]); return "window"; }
        if (o == "diag") { E[L(t[1])] = Persistence_landscape(diag_at(t, 2)); return "diag"; }
        if (o == "gdiag") { G[L(t[1])] = Persistence_landscape_on_grid(diag_at(t, 5), (double)L(t[2]), (double)L(t[3]), (size_t)L(t[4])); return "gdiag"; }
        if (o == "gdiagl") { G[L(t[1])] = Persistence_landscape_on_grid(diag_at(t, 6), (double)L(t[2]), (double)L(t[3]), (size_t)L(t[4]), (unsigned)L(t[5])); return "gdiagl"; }
        if (o == "eval" || o == "geval") { long a = L(t[1]), nl = L(t[2]); bool g = o == "geval";
          for (long k = 0; k < nl; ++k) { r << (k ? "\n" : "") << "lev " << k << ":"; for (long x = lo; x <= hi; ++x) { double v = g ? G[a].compute_value_at_a_given_point((unsigned)k, x * 0.25) : E[a].compute_value_at_a_given_point((unsigned)k, x * 0.25); r << " " << q64(v); } }
          return r.str(); }
        if (o == "add") { E[L(t[1])] = E[L(t[2])] + E[L(t[3])]; return "add"; }
        if (o == "sub") { E[L(t[1])] = E[L(t[2])] - E[L(t[3])]; return "sub"; }
        if (o == "scale") { E[L(t[1])] = (L(t[4]) ? (double)L(t[3]) * E[L(t[2])] : E[L(t[2])] * (double)L(t[3])); return "scale"; }
        if (o == "abs") { E[L(t[1])] = E[L(t[2])].abs(); return "abs"; }
        if (o == "avg") { std::vector<Persistence_landscape*> v; for (size_t i = 2; i < t.size(); ++i) v.push_back(&E[L(t[i])]); Persistence_landscape res; res.compute_average(v); E[L(t[1])] = res; return "avg"; }
        if (o == "int") return "int " + num(E[L(t[1])].compute_integral_of_landscape());
        if (o == "dist") { long p = L(t[3]); auto &a = E[L(t[1])], &b = E[L(t[2])];
          if (p == 0) {   // the sup distance by its three public routes
            double big = std::numeric_limits<double>::max();
            double m1 = compute_max_norm_distance_of_landscapes(a, b), m2 = compute_distance_of_landscapes(a, b, big), m3 = a.distance(b, big);
            if (std::fabs(m1 - m2) > 1e-9 || std::fabs(m1 - m3) > 1e-9) return "dist sup-routes-differ " + num(m1) + " " + num(m2) + " " + num(m3);
            return "dist " + num(m1); }
          double d = compute_distance_of_landscapes(a, b, (double)p); double d2 = a.distance(b, (double)p); if (std::fabs(d - d2) > 1e-9) return "dist member-and-friend-differ";
          return "dist " + num(p == 2 ? d * d : d); }
        if (o == "ip") { double v = compute_inner_product(E[L(t[1])], E[L(t[2])]); double w = E[L(t[1])].compute_scalar_product(E[L(t[2])]); if (std::fabs(v - w) > 1e-9) return "ip member-and-friend-differ"; return "ip " + num(v); }
        if (o == "gadd") { G[L(t[1])] = G[L(t[2])] + G[L(t[3])]; return "gadd"; }
        if (o == "gsub") { G[L(t[1])] = G[L(t[2])] - G[L(t[3])]; return "gsub"; }
        if (o == "gscale") { G[L(t[1])] = (L(t[4]) ? (double)L(t[3]) * G[L(t[2])] : G[L(t[2])] * (double)L(t[3])); return "gscale"; }
        if (o == "gabs") { G[L(t[1])] = G[L(t[2])]; G[L(t[1])].abs(); return "gabs"; }
        if (o == "gavg") { std::vector<Persistence_landscape_on_grid*> v; for (size_t i = 2; i < t.size(); ++i) v.push_back(&G[L(t[i])]); Persistence_landscape_on_grid res; res.compute_average(v); G[L(t[1])] = res; return "gavg"; }
        if (o == "gint") return "gint " + num(G[L(t[1])].compute_integral_of_landscape());
        if (o == "gdist") { long p = L(t[3]); auto &a = G[L(t[1])], &b = G[L(t[2])];
          if (p == 0) return "gdist " + num(compute_max_norm_distance_of_landscapes(a, b));
          double d = compute_distance_of_landscapes_on_grid(a, b, (double)p); return "gdist " + num(p == 2 ? d * d : d); }
        if (o == "gip") return "gip " + num(compute_inner_product(G[L(t[1])], G[L(t[2])]));
        return "bad-op"; }); }
      catch (...) { out = "other_exception"; }
      std::cout << out << "\n"; });
}
