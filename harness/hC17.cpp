// C17 harness: skeleton-blocker complex (simple traits), release behaviour (compile with -DNDEBUG).
#include <set>
#include <gudhi/Skeleton_blocker.h>
#include "common.h"
using vh::Toks; using vh::L;
typedef Gudhi::skeleton_blocker::Skeleton_blocker_simple_traits Traits;
typedef Gudhi::skeleton_blocker::Skeleton_blocker_complex<Traits> Complex;
typedef Complex::Vertex_handle VH; typedef Complex::Simplex Simplex;
static Simplex tos(const std::vector<int>& v) { Simplex s; for (int k : v) s.add_vertex(VH(k)); return s; }

int main() {
  std::unique_ptr<Complex> c(new Complex()); int nv = 0;
  return vh::run([&] { c.reset(new Complex()); nv = 0; }, [&](const Toks& t) {
    std::string out = vh::guarded([&]() -> std::string {
      const std::string& o = t[0]; std::ostringstream r;
      std::vector<int> v; for (size_t i = 1; i < t.size(); ++i) v.push_back((int)L(t[i])); std::sort(v.begin(), v.end()); v.erase(std::unique(v.begin(), v.end()), v.end());
      if (o == "addv") { c->add_vertex(); ++nv; return "addv"; }
      if (o == "adde") { int a = (int)L(t[1]), b = (int)L(t[2]); if (a != b && c->contains_vertex(VH(a)) && c->contains_vertex(VH(b)) && !c->contains_edge(VH(a), VH(b))) c->add_edge(VH(a), VH(b)); return "adde"; }
      if (o == "adds") { c->add_simplex(tos(v)); if (!v.empty()) nv = std::max(nv, v.back() + 1); return "adds"; }
      if (o == "copy") {   // the complex goes on as a copy of itself: copy constructor (0) or assignment over a non-empty complex with a blocker (1)
        if (L(t[1]) == 0) { std::unique_ptr<Complex> d(new Complex(*c)); c = std::move(d); }
        else { std::unique_ptr<Complex> d(new Complex()); for (int i = 0; i < 4; ++i) d->add_vertex();
               for (int i = 0; i < 4; ++i) for (int j = i + 1; j < 4; ++j) d->add_edge(VH(i), VH(j));
               d->add_blocker(tos({0, 1, 2})); *d = *c; c = std::move(d); }
        return "copy"; }
      if (o == "rmstar") { c->remove_star(tos(v)); return "rmstar"; }
      if (o == "link") { return std::string("link ") + (c->link_condition(VH((int)L(t[1])), VH((int)L(t[2]))) ? "1" : "0"); }
      if (o == "contract") { int a = (int)L(t[1]), b = (int)L(t[2]); if (a != b && c->contains_vertex(VH(a)) && c->contains_vertex(VH(b)) && c->contains_edge(VH(a), VH(b)) && c->link_condition(VH(a), VH(b))) { c->contract_edge(VH(a), VH(b)); return "contract 1"; } return "contract 0"; }
      if (o == "obs") { r << "contains";
        for (unsigned m = 1; m < (1u << nv); ++m) { std::vector<int> s; for (int k = 0; k < nv; ++k) if (m >> k & 1) s.push_back(k); bool in = true; for (int k : s) if (!c->contains_vertex(VH(k))) in = false; r << " " << ((in && c->contains(tos(s))) ? 1 : 0); }
        std::vector<std::vector<int>> bl; for (auto b : c->const_blocker_range()) { std::vector<int> s; for (auto x : *b) s.push_back((int)x.vertex); std::sort(s.begin(), s.end()); bl.push_back(s); }
        std::sort(bl.begin(), bl.end()); r << "\nblockers"; for (auto& s : bl) { r << " "; for (size_t i = 0; i < s.size(); ++i) { if (i) r << ","; r << s[i]; } }
        if (bl.size() != c->num_blockers()) r << " num_blockers-disagrees";
        { int cnt = 0; for (auto x : c->vertex_range()) { (void)x; ++cnt; } r << "\nnverts " << c->num_vertices(); if (cnt != (int)c->num_vertices()) r << " vertex_range-disagrees"; }
        return r.str(); }
      return "bad-op"; });
    std::cout << out << "\n"; });
}
