// Edge-collapse harness (C12).  `process` drives Flag_complex_edge_collapser::process_edges with the explicit order of the
// history (any order by non-increasing value is a legal outcome of the unstable sort of the public function) and prints the
// emitted edges in emission order; `collapse` calls the public flag_complex_collapse_edges and prints its output sorted.
#include <iostream>
#include <cmath>
#include <gudhi/Flag_complex_edge_collapser.h>
#include "common.h"
using vh::Toks; using vh::L;
typedef std::tuple<int, int, double> FE;
int main() {
  std::vector<FE> g;
  return vh::run([&] { g.clear(); }, [&](const Toks& t) {
    const std::string& o = t[0];
    std::cout << vh::guarded([&]() -> std::string {
      std::ostringstream r;
      if (o == "graph") { g.clear(); for (size_t i = 1; i + 2 < t.size(); i += 3) g.emplace_back((int)L(t[i]), (int)L(t[i + 1]), (double)L(t[i + 2])); return "graph"; }
      if (o == "e") { g.emplace_back((int)L(t[1]), (int)L(t[2]), (double)L(t[3])); return "e"; }
      if (o == "clear") { g.clear(); return "clear"; }
      if (o == "process") { Gudhi::collapse::Flag_complex_edge_collapser<int, double> c; if (!g.empty()) c.process_edges(g, [](double d) { return d; }); auto res = g.empty() ? std::vector<FE>() : c.output();
        r << "out"; for (auto& e : res) r << " " << std::get<0>(e) << "," << std::get<1>(e) << ":" << (long)std::llround(std::get<2>(e)); if (res.empty()) r << " "; return r.str(); }
      if (o == "collapse") { auto res = Gudhi::collapse::flag_complex_collapse_edges(g); std::vector<std::tuple<int, int, long>> s; for (auto& e : res) { int a = std::get<0>(e), b = std::get<1>(e); if (a > b) std::swap(a, b); s.emplace_back(a, b, (long)std::llround(std::get<2>(e))); }
        std::sort(s.begin(), s.end()); r << "col"; for (auto& e : s) r << " " << std::get<0>(e) << "," << std::get<1>(e) << ":" << std::get<2>(e); return r.str(); }
      return "bad-op"; }) << "\n"; });
}
