// C15, schedules: k threads, each owning its objects (simplex trees with copies / moves / serialisation, persistent cohomology, a
// persistence matrix with copies and removals), run the same deterministic scripts as a sequential pass; every thread must produce
// the digest of its sequential twin.  Built with -fsanitize=thread: a data race between independent objects (shared static state,
// shared pools) aborts the run.
#include <iostream>
#include <sstream>
#include <thread>
#include <random>
#include <gudhi/Simplex_tree.h>
#include <gudhi/Persistent_cohomology.h>
#include <gudhi/Matrix.h>
#include <gudhi/persistence_matrix_options.h>
#include "common.h"
using vh::Toks; using vh::L;
typedef Gudhi::Simplex_tree<Gudhi::Simplex_tree_options_full_featured> ST;
using namespace Gudhi::persistence_matrix;
struct Opt : Default_options<Column_types::INTRUSIVE_LIST, true> {
  static const bool has_column_pairings = true; static const bool has_vine_update = true; static const bool has_removable_columns = true; static const bool has_row_access = true; };
struct OptC : Default_options<Column_types::SET, false> {
  static const bool has_column_pairings = true; static const bool is_of_boundary_type = false; static const bool has_removable_columns = true; };

static std::string digest(ST& st) { std::ostringstream o; o << st.num_simplices() << "/" << st.dimension(); double s = 0; for (auto sh : st.complex_simplex_range()) s += st.filtration(sh) * (1 + st.dimension(sh)); o << "/" << s; return o.str(); }

static std::string worker(unsigned seed) {
  std::mt19937 rng(seed); std::ostringstream out;
  for (int round = 0; round < 6; ++round) {
    ST a; int U = 4 + rng() % 3;
    for (int i = 0; i < 5; ++i) { std::vector<int> s; for (int v = 0; v < U; ++v) if (rng() % 2) s.push_back(v); if (s.empty()) s.push_back(0); a.insert_simplex_and_subfaces(s, (double)(rng() % 4)); }
    ST b(a); ST c; c = a;
    // mutate the copies differently
    { std::vector<ST::Simplex_handle> mx; for (auto sh : b.complex_simplex_range()) if (!b.has_children(sh) && b.dimension(sh) == b.dimension()) mx.push_back(sh); if (!mx.empty()) b.remove_maximal_simplex(mx[0]); }
    c.prune_above_filtration(1);
    ST d(std::move(c));
    std::size_t n = a.get_serialization_size(); std::vector<char> buf(n); a.serialize(buf.data(), n); ST e; e.deserialize(buf.data(), n);
    out << digest(a) << " " << digest(b) << " " << digest(c) << " " << digest(d) << " " << (a == e) << ";";
    // persistence of a (own cohomology object, own field)
    { Gudhi::persistent_cohomology::Persistent_cohomology<ST, Gudhi::persistent_cohomology::Field_Zp> pc(a); pc.init_coefficients(2 + (seed % 2)); pc.compute_persistent_cohomology(0);
      auto bt = pc.betti_numbers(); for (auto x : bt) out << x << ","; out << ";"; }
    // matrices filled from a, copied, reduced
    { Matrix<Opt> m; Matrix<OptC> mc(0u, 5u); a.clear_filtration(); unsigned k = 0; for (auto sh : a.filtration_simplex_range()) a.assign_key(sh, k++);
      for (auto sh : a.filtration_simplex_range()) { std::vector<unsigned> bd; std::vector<std::pair<unsigned, unsigned> > bdc; int sgn = 1; std::vector<unsigned> keys; for (auto f : a.boundary_simplex_range(sh)) keys.push_back(a.key(f));
        std::sort(keys.begin(), keys.end()); for (auto x : keys) { bd.push_back(x); bdc.push_back({x, sgn == 1 ? 1u : 4u}); sgn = -sgn; }
        m.insert_boundary(bd, a.dimension(sh)); mc.insert_boundary(a.key(sh), bdc, a.dimension(sh)); }
      Matrix<Opt> m2(m); Matrix<OptC> mc2; mc2 = mc;
      if (m.get_number_of_columns() > 1) m.remove_last();
      out << m.get_current_barcode().size() << "/" << m2.get_current_barcode().size() << "/" << mc2.get_current_barcode().size() << ";"; }
  }
  return out.str();
}

int main() {
  return vh::run([] {}, [&](const Toks& t) {
    if (t[0] != "thr") { std::cout << "bad-op\n"; return; }
    int k = (int)L(t[1]); unsigned seed = (unsigned)L(t[2]);
    std::vector<std::string> seq(k), par(k);
    for (int i = 0; i < k; ++i) seq[i] = worker(seed + i);
    std::vector<std::thread> th; for (int i = 0; i < k; ++i) th.emplace_back([&, i] { par[i] = worker(seed + i); });
    for (auto& x : th) x.join();
    std::cout << "thr agree=" << (seq == par ? 1 : 0) << "\n"; });
}
