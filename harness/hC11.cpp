// Ripser harness (C11): the same symmetric dissimilarity in the five input forms, through ripser_auto or with a forced simplex
// encoding (help2); prints the intervals of positive length per dimension.  Euclidean input: integer points, values are
// printed squared (Ripser only compares and maximises distances, so squaring is order-preserving).
#include <iostream>
#include <cmath>
#include <gudhi/ripser.h>
#include "common.h"
using vh::Toks; using vh::L;
namespace R = Gudhi::ripser;
typedef R::TParams2<double> DP;
struct Src { int n; std::vector<std::vector<double>> D; typedef int vertex_t; typedef double value_t; double operator()(int i, int j) const { return D[i][j]; } int size() const { return n; } };
typedef std::vector<std::tuple<int, double, double>> Diag;

template <class Dist> static void go(Dist dist, const std::string& enc, int dim, double thr, unsigned p, Diag& out) {
  int cur = -1;
  auto od = [&](int d) { cur = d; };
  auto op = [&](double b, double d) { if (b < d) out.push_back({cur, b, d}); };
  if (enc == "auto") { R::ripser_auto(std::move(dist), dim, thr, p, od, op); return; }
  int n = dist.size(); if (dim > n - 2) dim = n - 2;
  if (p == 2) {
    if (enc == "b64") { typedef R::TParams<false, uint64_t, double> P; R::help2<P, R::Bitfield_encoding<P>>(std::move(dist), dim, thr, p, od, op); }
    else if (enc == "b128") { typedef R::TParams<false, Gudhi::numbers::uint128_t, double> P; R::help2<P, R::Bitfield_encoding<P>>(std::move(dist), dim, thr, p, od, op); }
    else { typedef R::TParams<false, Gudhi::numbers::uint128_t, double> P; R::help2<P, R::Cns_encoding<P>>(std::move(dist), dim, thr, p, od, op); }
  } else {
    if (enc == "b64") { typedef R::TParams<true, uint64_t, double> P; R::help2<P, R::Bitfield_encoding<P>>(std::move(dist), dim, thr, p, od, op); }
    else if (enc == "b128") { typedef R::TParams<true, Gudhi::numbers::uint128_t, double> P; R::help2<P, R::Bitfield_encoding<P>>(std::move(dist), dim, thr, p, od, op); }
    else { typedef R::TParams<true, Gudhi::numbers::uint128_t, double> P; R::help2<P, R::Cns_encoding<P>>(std::move(dist), dim, thr, p, od, op); }
  }
}

int main() {
  Src src{0, {}}; std::vector<std::vector<double>> pts;
  return vh::run([&] { src = Src{0, {}}; pts.clear(); }, [&](const Toks& t) {
    const std::string& o = t[0];
    std::string out;
    try { out = vh::guarded([&]() -> std::string {
      std::ostringstream r;
      if (o == "mat") { int n = (int)L(t[1]); src.n = n; src.D.assign(n, std::vector<double>(n, 0)); size_t k = 2; for (int i = 0; i < n; ++i) for (int j = 0; j < i; ++j) { src.D[i][j] = src.D[j][i] = (double)L(t[k++]); } pts.clear(); return "mat"; }
      if (o == "pts") { int n = (int)L(t[1]), d = (int)L(t[2]); pts.assign(n, std::vector<double>(d)); size_t k = 3; for (int i = 0; i < n; ++i) for (int j = 0; j < d; ++j) pts[i][j] = (double)L(t[k++]); return "pts"; }
      if (o == "run") { const std::string& form = t[1]; int dim = (int)L(t[2]); double thr = t[3] == "inf" ? INFINITY : (double)L(t[3]); unsigned p = (unsigned)L(t[4]); const std::string& enc = t[5];
        Diag dg; int n = src.n; bool sq = false;
        if (form == "full") go(R::Full_distance_matrix<DP>(src), enc, dim, thr, p, dg);
        else if (form == "lower") { std::vector<double> v; for (int i = 1; i < n; ++i) for (int j = 0; j < i; ++j) v.push_back(src.D[i][j]); go(R::Compressed_distance_matrix<DP, R::LOWER_TRIANGULAR>(std::move(v)), enc, dim, thr, p, dg); }
        else if (form == "upper") { std::vector<double> v; for (int i = 0; i < n; ++i) for (int j = i + 1; j < n; ++j) v.push_back(src.D[i][j]); go(R::Compressed_distance_matrix<DP, R::UPPER_TRIANGULAR>(std::move(v)), enc, dim, thr, p, dg); }
        else if (form == "sparse") { typedef R::Sparse_distance_matrix<DP> S; std::vector<std::vector<S::vertex_diameter_t>> nb(n); for (int i = 0; i < n; ++i) for (int j = 0; j < n; ++j) if (i != j && src.D[i][j] <= thr) nb[i].emplace_back(j, src.D[i][j]);
          go(S(std::move(nb)), enc, dim, thr, p, dg); }
        else if (form == "eucl") { sq = true; auto q = pts; double th2 = std::isinf(thr) ? thr : std::sqrt(thr);   // the history gives the squared threshold
          go(R::Euclidean_distance_matrix<DP>(std::move(q)), "auto", dim, th2, p, dg); }
        else return "bad-form";
        std::vector<std::tuple<int, long, long>> bars; for (auto& b : dg) { double bb = std::get<1>(b), dd = std::get<2>(b); if (sq) { bb = bb * bb; dd = std::isinf(dd) ? dd : dd * dd; } bars.push_back({std::get<0>(b), std::llround(bb), std::isinf(dd) ? (long)1e18 : std::llround(dd)}); }
        std::sort(bars.begin(), bars.end()); r << "bars"; for (auto& b : bars) { r << " " << std::get<0>(b) << ":" << std::get<1>(b) << ":"; if (std::get<2>(b) == (long)1e18) r << "inf"; else r << std::get<2>(b); } if (bars.empty()) r << " "; return r.str(); }
      return "bad-op"; }); }
    catch (...) { out = "other_exception"; }
    std::cout << out << "\n"; });
}
