// C02 harness: Persistent_cohomology on a simplex tree (Field_Zp, Multi_field) and on the Hasse complex built from it.
#include <cassert>
#include <iostream>
#include <cmath>
#include <map>
#include <gudhi/Simplex_tree.h>
#include <gudhi/Hasse_complex.h>
#include <gudhi/Persistent_cohomology.h>
#include <gudhi/Persistent_cohomology/Multi_field.h>
#include "common.h"
using vh::Toks; using vh::L;
using namespace Gudhi;
#ifndef STOPT
#define STOPT Simplex_tree_options_default
#endif
typedef Simplex_tree<STOPT> ST;

template <class Cpx, class PC> std::string report(Cpx& st, PC& pc, int dimmax, long from, long to) {
  std::vector<std::tuple<int, long, long, bool>> b;
  for (auto& pr : pc.get_persistent_pairs()) { bool inf = std::get<1>(pr) == st.null_simplex(); b.push_back({st.dimension(std::get<0>(pr)), (long)st.filtration(std::get<0>(pr)), inf ? 0 : (long)st.filtration(std::get<1>(pr)), inf}); }
  std::sort(b.begin(), b.end(), [](auto& x, auto& y) { if (std::get<0>(x) != std::get<0>(y)) return std::get<0>(x) < std::get<0>(y); if (std::get<1>(x) != std::get<1>(y)) return std::get<1>(x) < std::get<1>(y);
    if (std::get<3>(x) != std::get<3>(y)) return !std::get<3>(x); return std::get<2>(x) < std::get<2>(y); });
  std::ostringstream o; o << "bars"; for (auto& t : b) { o << " " << std::get<0>(t) << ":" << std::get<1>(t) << ":"; if (std::get<3>(t)) o << "inf"; else o << std::get<2>(t); }
  o << "\nbetti " << vh::join(pc.betti_numbers());
  // the one-dimension queries must agree with the vector forms
  auto bn = pc.betti_numbers(); for (size_t d = 0; d < bn.size(); ++d) if (pc.betti_number((int)d) != bn[d]) o << " betti_number-mismatch";
  auto pb = pc.persistent_betti_numbers((double)from, (double)to);
  o << "\npbetti " << vh::join(pb);
  for (size_t d = 0; d < pb.size(); ++d) if (pc.persistent_betti_number((int)d, (double)from, (double)to) != pb[d]) o << " persistent_betti_number-mismatch";
  // intervals_in_dimension must be the per-dimension projection of the pairs
  for (int d = 0; d < dimmax; ++d) { size_t cnt = 0; for (auto& t : b) if (std::get<0>(t) == d) ++cnt; if (pc.intervals_in_dimension(d).size() != cnt) o << " intervals_in_dimension-mismatch"; }
  o << "\nspec 1";
  return o.str(); }

int main(int argc, char** argv) {
  std::string mode = argc > 1 ? argv[1] : "st";
  std::unique_ptr<ST> st(new ST());
  return vh::run([&] { st.reset(new ST()); }, [&](const Toks& t) {
    std::string r = vh::guarded([&]() -> std::string {
      const std::string& o = t[0];
      if (o == "s") { std::vector<int> v; for (size_t i = 2; i < t.size(); ++i) v.push_back((int)L(t[i])); st->insert_simplex_and_subfaces(v, (double)L(t[1])); return ""; }
      if (o == "pers") { int p = (int)L(t[1]); long ml = L(t[2]); bool flag = L(t[3]) != 0; long from = L(t[4]), to = L(t[5]);
        st->clear_filtration();
        int dimmax = st->dimension() + (flag ? 1 : 0);
        if (mode == "hasse") {
          st->initialize_filtration();
          int count = 0; for (auto sh : st->filtration_simplex_range()) st->assign_key(sh, count++);
          Hasse_complex<> hc(*st);
          persistent_cohomology::Persistent_cohomology<Hasse_complex<>, persistent_cohomology::Field_Zp> pc(hc, flag); pc.init_coefficients(p); pc.compute_persistent_cohomology((double)ml);
          return report(hc, pc, dimmax, from, to); }
        persistent_cohomology::Persistent_cohomology<ST, persistent_cohomology::Field_Zp> pc(*st, flag); pc.init_coefficients(p); pc.compute_persistent_cohomology((double)ml);
        return report(*st, pc, dimmax, from, to); }
      if (o == "multi") { int lo = (int)L(t[1]), hi = (int)L(t[2]); long ml = L(t[3]); bool flag = L(t[4]) != 0;
        st->clear_filtration();
        persistent_cohomology::Persistent_cohomology<ST, persistent_cohomology::Multi_field> pc(*st, flag); pc.init_coefficients(lo, hi); pc.compute_persistent_cohomology((double)ml);
        // per-prime projection of the reported intervals (the property is stated prime by prime, at value level)
        std::ostringstream o; bool ok = true; mpz_class P = 1;
        std::vector<int> primes; for (int q = std::max(lo, 2); q <= hi; ++q) { bool pr = true; for (int d = 2; d * d <= q; ++d) if (q % d == 0) pr = false; if (pr) { primes.push_back(q); P *= q; } }
        for (auto& pr : pc.get_persistent_pairs()) { mpz_class prod = std::get<2>(pr); if (prod <= 1 || P % prod != 0) ok = false; }
        for (int q : primes) {
          std::vector<std::tuple<int, long, bool, long>> b;
          for (auto& pr : pc.get_persistent_pairs()) { mpz_class prod = std::get<2>(pr); if (prod % q != 0) continue; bool inf = std::get<1>(pr) == st->null_simplex();
            b.push_back({st->dimension(std::get<0>(pr)), (long)st->filtration(std::get<0>(pr)), inf, inf ? 0 : (long)st->filtration(std::get<1>(pr))}); }
          std::sort(b.begin(), b.end());
          o << "mq " << q; for (auto& t : b) { o << " " << std::get<0>(t) << ":" << std::get<1>(t) << ":"; if (std::get<2>(t)) o << "inf"; else o << std::get<3>(t); } o << "\n"; }
        o << "products-ok " << (ok ? 1 : 0); return o.str(); }
      return "bad-op"; });
    if (!r.empty()) std::cout << r << "\n"; });
}
