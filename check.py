#!/usr/bin/env python3
"""check.py <Cxx> [--tier quick|thorough] [--seed N] [--replay file] [--keep]

Exit 0: the property held on everything explored (KNOWN-FINDING lines may be printed).
Exit 1: a line `VIOLATION property=<id> replay=<path>[ no-failing-input-found]` was printed.
"""
import argparse, importlib, json, os, sys, traceback
sys.path.insert(0, os.path.dirname(os.path.abspath(__file__)))
import vlib


def main():
    ap = argparse.ArgumentParser()
    ap.add_argument('pid')
    ap.add_argument('--tier', default=os.environ.get('VERIF_TIER', 'quick'), choices=['quick', 'thorough'])
    ap.add_argument('--seed', type=int, default=int(os.environ.get('VERIF_SEED', '1')))
    ap.add_argument('--replay')
    ap.add_argument('--keep', action='store_true')
    a = ap.parse_args()
    os.chdir(vlib.VERIF)
    mod = importlib.import_module('props.' + a.pid)
    ctx = vlib.Ctx(a.pid, a.tier, a.seed, a.keep or bool(a.replay), replaying=bool(a.replay))
    if a.replay:
        rp = json.load(open(a.replay))
        return mod.replay(ctx, rp) if hasattr(mod, 'replay') else generic_replay(ctx, mod, rp)
    try:
        mod.run(ctx)
    except Exception:
        tb = traceback.format_exc()
        print(tb, file=sys.stderr)
        ctx.violation('machinery-error', 'the check itself failed: ' + tb[-1500:], found_input=False)
    return vlib.finish(ctx, getattr(mod, 'ASSUMPTIONS', ()), getattr(mod, 'EXTRA_TRUSTED', ()))


def generic_replay(ctx, mod, rp):
    """Re-run the history of a replay file through the real code and the model and print both."""
    if 'ops' not in rp:
        print('replay names a proof obligation, no history:', rp.get('detail')); return 1
    cmds = mod.replay_cmds(ctx, rp)
    if cmds is None:
        print('cannot rebuild harness'); return 2
    impl_cmd, model_cmd = cmds
    a = vlib.run_one(ctx, impl_cmd, rp['ops'], 'rp_i')
    b = vlib.run_one(ctx, model_cmd, rp['ops'], 'rp_m')
    if hasattr(mod, 'canon'): a, b = mod.canon(a), mod.canon(b)
    print('ops:'); [print('  ' + l) for l in rp['ops']]
    print('implementation:'); [print('  ' + l) for l in a]
    print('model:'); [print('  ' + l) for l in b]
    print('DIFFERENT' if a != b else 'same')
    return 1 if a != b else 0


if __name__ == '__main__':
    sys.exit(main())
